/-
  The implementation model with *repair flags* (`Fixes`).  With every flag off `stepFx` is the
  code-as-found model `step` (`stepFx_off`); each flag switches in the behaviour of one candidate
  repair patch (areas/fs/repairs/*.patch).  The code-as-found functions of `Model/Fs.lean` are left
  untouched — every theorem about them keeps talking about the current /repo.

  readOrder      F-1   `read_file` honours pending `SetLen`s in log order (zeroes the cut-off tail)
  renameKind     F-5   the kind of a rename target is the kind its source had at that point of the log
  childRenamedIn F-7   `dir_has_children` counts entries that arrived by a pending rename
  createOverDir  F-9   `OpenOptions::open` with create / create_new fails on a directory path
  syncRenameBoth F-11  `sync_dir` updates both entries of every rename it flushes
  dataKeyResolve F-3   `write_file` / `set_file_len` key the pending op by the name the inode has now
  fsyncResolve   F-10  `sync_file` flushes the data ops keyed by the name the inode has now
                       (`resolve_content_path`), not by the name it was called with
  crashTree      F-12a `Fs::crash` first forgets the durable name of every entry one of whose proper
                       ancestors (below the root) is not a durable directory: the crash image is a tree
-/
import TvFs.Model.Fs
import TvFs.Model.Spec

namespace TV.Fs

structure Fixes where
  readOrder : Bool := false
  renameKind : Bool := false
  childRenamedIn : Bool := false
  createOverDir : Bool := false
  syncRenameBoth : Bool := false
  fsyncResolve : Bool := false
  dataKeyResolve : Bool := false
  crashTree : Bool := false
  deriving DecidableEq, Repr, Inhabited

/-- the repairs that are committed in /repo (61ef052 8aa6329 977a543 3508629 5c93fae 69c39a4 and the
    crash-image repair of F-C07-12a): the model of the code as it is now.  F-5 (`renameKind`) is a
    verified candidate that was not taken. -/
def Fixes.committed : Fixes :=
  { readOrder := true, childRenamedIn := true, createOverDir := true, syncRenameBoth := true,
    fsyncResolve := true, dataKeyResolve := true, crashTree := true }

/-- `a` has at least the repairs of `b` -/
def Fixes.includes (a b : Fixes) : Bool :=
  (!b.readOrder || a.readOrder) && (!b.renameKind || a.renameKind) && (!b.childRenamedIn || a.childRenamedIn)
  && (!b.createOverDir || a.createOverDir) && (!b.syncRenameBoth || a.syncRenameBoth)
  && (!b.fsyncResolve || a.fsyncResolve) && (!b.dataKeyResolve || a.dataKeyResolve)
  && (!b.crashTree || a.crashTree)

/-! ### existence (F-5): scan with the source's kind looked up at that point of the log -/

/-- `file_exists_upto`, on the reversed log (most recent op first) -/
def fileExistsR (files : List (Path × Bytes)) : List POp → Path → Bool
  | [], p => (alookup p files).isSome
  | .createFile q :: r, p => if q = p then true else fileExistsR files r p
  | .removeFile q :: r, p => if q = p then false else fileExistsR files r p
  | .rename s d :: r, p =>
    if s = p then false
    else if d = p then (if fileExistsR files r s then true else fileExistsR files r p)
    else fileExistsR files r p
  | _ :: r, p => fileExistsR files r p

/-- `dir_exists_upto`, on the reversed log -/
def dirExistsR (dirs : List Path) : List POp → Path → Bool
  | [], p => dirs.contains p
  | .createDir q :: r, p => if q = p then true else dirExistsR dirs r p
  | .removeDir q :: r, p => if q = p then false else dirExistsR dirs r p
  | .rename s d :: r, p =>
    if s = p then false
    else if d = p then (if dirExistsR dirs r s then true else dirExistsR dirs r p)
    else dirExistsR dirs r p
  | _ :: r, p => dirExistsR dirs r p

def fileExistsFx (fx : Fixes) (s : Fs) (p : Path) : Bool :=
  if fx.renameKind then fileExistsR s.files s.pending.reverse p else fileExists s p

def dirExistsFx (fx : Fixes) (s : Fs) (p : Path) : Bool :=
  if fx.renameKind then dirExistsR s.dirs s.pending.reverse p else dirExists s p

def parentExistsFx (fx : Fixes) (s : Fs) (path : Path) : Bool :=
  match parent path with
  | none => true
  | some d => dirExistsFx fx s d

/-! ### content (F-1) -/

/-- zero every position at and beyond `n` -/
def zeroFrom (buf : Bytes) (n : Nat) : Bytes :=
  (List.range buf.length).map fun i => if i < n then buf.getD i 0 else 0

def contentStepFx (fx : Fixes) (s : Fs) (cp : Path) (buf : Bytes) : POp → Bytes
  | .write p off d => if appliesTo s p cp then overlayClip buf off d else buf
  | .setLen p n => if fx.readOrder && appliesTo s p cp then zeroFrom buf n else buf
  | _ => buf

def contentFx (fx : Fixes) (s : Fs) (path : Path) : Bytes :=
  let cp := resolvePath s path
  let base := overlayClip (List.replicate (fileLen s path) 0) 0 ((alookup cp s.files).getD [])
  s.pending.foldl (contentStepFx fx s cp) base

def readSliceFx (fx : Fixes) (s : Fs) (path : Path) (off n : Nat) : Bytes :=
  ((contentFx fx s path).drop off).take n

/-! ### directories (F-7) -/

def dirHasChildrenFx (fx : Fixes) (s : Fs) (path : Path) : Bool :=
  s.files.any (fun kv => isChildOf kv.1 path && fileExistsFx fx s kv.1)
  || s.dirs.any (fun d => isChildOf d path && dirExistsFx fx s d)
  || s.pending.any (fun op =>
      match op with
      | .createFile p => isChildOf p path && fileExistsFx fx s p
      | .createDir p => isChildOf p path && dirExistsFx fx s p
      | .rename _ dst =>
        fx.childRenamedIn && isChildOf dst path && (fileExistsFx fx s dst || dirExistsFx fx s dst)
      | _ => false)

def dirEntryPathsFx (fx : Fixes) (s : Fs) (path : Path) : List Path :=
  (s.files.filterMap fun kv => if isChildOf kv.1 path && fileExistsFx fx s kv.1 then some kv.1 else none)
  ++ (s.dirs.filter fun d => isChildOf d path && dirExistsFx fx s d)
  ++ (s.pending.filterMap fun op =>
      match op with
      | .createFile p => if isChildOf p path && fileExistsFx fx s p then some p else none
      | .createDir p => if isChildOf p path && dirExistsFx fx s p then some p else none
      | .rename _ dst =>
        if isChildOf dst path && (fileExistsFx fx s dst || dirExistsFx fx s dst) then some dst else none
      | _ => none)

def dirEntryNamesFx (fx : Fixes) (s : Fs) (path : Path) : List Nat :=
  sortDedup ((dirEntryPathsFx fx s path).map fun p => p.getLastD 0)

def mkdirFx (fx : Fixes) (s : Fs) (path : Path) : Except Err Fs :=
  if !(parentExistsFx fx s path) then .error .notfound
  else if dirExistsFx fx s path || fileExistsFx fx s path then .error .alreadyexists
  else .ok { s with pending := s.pending ++ [.createDir path] }

def rmdirFx (fx : Fixes) (s : Fs) (path : Path) : Except Err Fs :=
  if !(dirExistsFx fx s path) then .error .notfound
  else if dirHasChildrenFx fx s path then .error .notempty
  else .ok { s with pending := s.pending ++ [.removeDir path] }

def unlinkFx (fx : Fixes) (s : Fs) (path : Path) : Except Err Fs :=
  if !(fileExistsFx fx s path) then .error .notfound
  else .ok { s with pending := s.pending ++ [.removeFile path] }

def renameFx (fx : Fixes) (s : Fs) (src dst : Path) : Except Err Fs :=
  if !(parentExistsFx fx s dst) then .error .notfound
  else if fileExistsFx fx s src then
    if dirExistsFx fx s dst then .error .isdir
    else .ok { s with pending := s.pending ++ [.rename src dst] }
  else if dirExistsFx fx s src then
    if fileExistsFx fx s dst then .error .notdir
    else if dirExistsFx fx s dst && dirHasChildrenFx fx s dst then .error .notempty
    else .ok { s with pending := s.pending ++ [.rename src dst] }
  else .error .notfound

/-! ### syncs (F-11) -/

def syncFileFx (fx : Fixes) (s : Fs) (path : Path) : Except Err Fs :=
  if !(fileExistsFx fx s path) then .error .notfound
  else if fx.fsyncResolve then
    let cp := resolvePath s path
    let toFlush := s.pending.filter (isDataOpOf cp)
    let toKeep := s.pending.filter (fun op => !(isDataOpOf cp op))
    let s1 : Fs := if (alookup cp s.files).isSome then s else { s with files := s.files ++ [(cp, [])] }
    .ok (toFlush.foldl applyOp { s1 with pending := toKeep })
  else
    let toFlush := s.pending.filter (isDataOpOf path)
    let toKeep := s.pending.filter (fun op => !(isDataOpOf path op))
    let s1 : Fs := if (alookup path s.files).isSome then s else { s with files := s.files ++ [(path, [])] }
    .ok (toFlush.foldl applyOp { s1 with pending := toKeep })

def syncedUpdFx (fx : Fixes) (path : Path) (syn : List Path) : POp → List Path
  | .rename src dst => if fx.syncRenameBoth then sinsert dst (serase src syn) else syncedUpd path syn (.rename src dst)
  | op => syncedUpd path syn op

def syncDirStepFx (fx : Fixes) (path : Path) (s : Fs) (op : POp) : Fs :=
  applyOp { s with synced := syncedUpdFx fx path s.synced op } op

def syncDirFx (fx : Fixes) (s : Fs) (path : Path) : Except Err Fs :=
  if !(dirExistsFx fx s path) then .error .notfound
  else
    let toFlush := s.pending.filter (isDirOpOf path)
    let toKeep := s.pending.filter (fun op => !(isDirOpOf path op))
    .ok (toFlush.foldl (syncDirStepFx fx path) { s with pending := toKeep })

/-! ### shim layer (F-9) -/

def openCreateFx (fx : Fixes) (s : Fs) (p : Path) (fl : Flags) : Except Err Fs :=
  if fileExistsFx fx s p then
    if fl.n then .error .alreadyexists else .ok s
  else if fl.c || fl.n then
    if fx.createOverDir && dirExistsFx fx s p then
      (if fl.n then .error .alreadyexists else .error .isdir)
    else if !(parentExistsFx fx s p) then .error .notfound
    else .ok { s with pending := s.pending ++ [.createFile p] }
  else .error .notfound

def openFsFx (fx : Fixes) (s : Fs) (p : Path) (fl : Flags) : Except Err Fs :=
  match openCreateFx fx s p fl with
  | .error e => .error e
  | .ok s1 =>
    .ok (if fl.t && fl.w then
      { s1 with pending := s1.pending ++ [.setLen (if fx.dataKeyResolve then resolvePath s1 p else p) 0] }
    else s1)

def writeFsFx (fx : Fixes) (s : Fs) (p : Path) (off : Nat) (d : Bytes) (coin : Bool) : Fs :=
  let key := if fx.dataKeyResolve then resolvePath s p else p
  let s1 := if d.isEmpty then s else { s with pending := s.pending ++ [.write key off d] }
  if coin then (match syncFileFx fx s1 p with | .ok s2 => s2 | .error _ => s1) else s1

def setLenFsFx (fx : Fixes) (s : Fs) (p : Path) (n : Nat) (coin : Bool) : Fs :=
  let key := if fx.dataKeyResolve then resolvePath s p else p
  let s1 := { s with pending := s.pending ++ [.setLen key n] }
  if coin then (match syncFileFx fx s1 p with | .ok s2 => s2 | .error _ => s1) else s1

def viewOfFx (fx : Fixes) (s : Fs) (p : Path) : View :=
  if fileExistsFx fx s p then .file (fileLen s p) (contentFx fx s p)
  else if dirExistsFx fx s p then .dir (dirEntryNamesFx fx s p)
  else .none

def mkdirAllCollectFx (fx : Fixes) (s : Fs) : Nat → Path → List Path
  | 0, _ => []
  | fuel + 1, p =>
    if dirExistsFx fx s p then []
    else match parent p with
      | none => [p]
      | some q => p :: mkdirAllCollectFx fx s fuel q

def mkdirAllRunFx (fx : Fixes) (s : Fs) : List Path → Except Err Fs
  | [] => .ok s
  | d :: r =>
    if dirExistsFx fx s d || fileExistsFx fx s d then mkdirAllRunFx fx s r
    else match mkdirFx fx s d with
      | .ok s1 => mkdirAllRunFx fx s1 r
      | .error e => .error e

def rmContentsFx (fx : Fixes) : Nat → Fs → Path → Fs × Option Err
  | 0, s, _ => (s, none)
  | fuel + 1, s, path =>
    (dirEntryNamesFx fx s path).foldl
      (fun acc name =>
        match acc.2 with
        | some _ => acc
        | none =>
          let s1 := acc.1
          let e := path ++ [name]
          if dirExistsFx fx s1 e then
            let r := rmContentsFx fx fuel s1 e
            match r.2 with
            | some er => (r.1, some er)
            | none =>
              match rmdirFx fx r.1 e with
              | .ok s2 => (s2, none)
              | .error er => (r.1, some er)
          else if fileExistsFx fx s1 e then
            match unlinkFx fx s1 e with
            | .ok s2 => (s2, none)
            | .error er => (s1, some er)
          else (s1, none))
      (s, none)

def rmdirAllFx (fx : Fixes) (s : Fs) (p : Path) : Fs × Option Err :=
  if !(dirExistsFx fx s p) then (s, some .notfound)
  else
    let r := rmContentsFx fx 8 s p
    match r.2 with
    | some e => (r.1, some e)
    | none =>
      match rmdirFx fx r.1 p with
      | .ok s2 => (s2, none)
      | .error e => (r.1, some e)

/-! ### crash (F-12a): the crash image is a tree -/

/-- the proper ancestors of `p` below the root: `p.take 1`, …, `p.take (p.length - 1)` -/
def properAncestors (p : Path) : List Path := (List.range (p.length - 1)).map fun k => p.take (k + 1)

/-- directories that are persisted and have a durable name -/
def durableDirs (s : Fs) : List Path := s.dirs.filter fun d => s.synced.contains d

def attachedTo (dd : List Path) (p : Path) : Bool := (properAncestors p).all fun a => dd.contains a

/-- forget the durable name of every entry that is unreachable from the root -/
def forgetUnreachable (s : Fs) : Fs := { s with synced := s.synced.filter (attachedTo (durableDirs s)) }

def crashFx (fx : Fixes) (s : Fs) (block : Option Nat) (torn : List Nat) : Fs :=
  crash (if fx.crashTree then forgetUnreachable s else s) block torn

/-- one shim call on the model with repair flags -/
def stepFx (fx : Fixes) (cfg : Cfg) (st : St) (op : Op) (ora : Ora) : St × Obs :=
  match op with
  | .open slot p fl =>
    let st0 := dropSlot st slot
    match openFsFx fx st0.fs p fl with
    | .error e => (st0, .err e)
    | .ok fs1 =>
      (setSlot { st0 with fs := fs1 } slot
        { path := p, readable := fl.r, writable := fl.w || fl.a, append := fl.a, cursor := 0 }, .ok)
  | .close slot =>
    match getSlot st slot with
    | none => (st, .noslot)
    | some _ => (dropSlot st slot, .ok)
  | .writeAt slot off d =>
    match getSlot st slot with
    | none => (st, .noslot)
    | some h =>
      if !h.writable then (st, .err .permissiondenied)
      else ({ st with fs := writeFsFx fx st.fs h.path off d ora.coin }, .okN d.length)
  | .readAt slot off len =>
    match getSlot st slot with
    | none => (st, .noslot)
    | some h =>
      if !h.readable then (st, .err .permissiondenied)
      else (st, .data (readSliceFx fx st.fs h.path off len))
  | .write slot d =>
    match getSlot st slot with
    | none => (st, .noslot)
    | some h =>
      if !h.writable then (st, .err .permissiondenied)
      else
        let off := if h.append then fileLen st.fs h.path else h.cursor
        let st1 := { st with fs := writeFsFx fx st.fs h.path off d ora.coin }
        (setSlot st1 slot { h with cursor := off + d.length }, .okN d.length)
  | .read slot len =>
    match getSlot st slot with
    | none => (st, .noslot)
    | some h =>
      if !h.readable then (st, .err .permissiondenied)
      else
        let b := readSliceFx fx st.fs h.path h.cursor len
        (setSlot st slot { h with cursor := h.cursor + b.length }, .data b)
  | .seek slot whence off =>
    match getSlot st slot with
    | none => (st, .noslot)
    | some h =>
      let base : Int := if whence = 0 then 0 else if whence = 1 then (h.cursor : Int) else (fileLen st.fs h.path : Int)
      let np := base + off
      if np < 0 then (st, .err .invalidinput)
      else (setSlot st slot { h with cursor := np.toNat }, .okN np.toNat)
  | .setLen slot n =>
    match getSlot st slot with
    | none => (st, .noslot)
    | some h =>
      if !h.writable then (st, .err .permissiondenied)
      else ({ st with fs := setLenFsFx fx st.fs h.path n ora.coin }, .ok)
  | .syncAll slot =>
    match getSlot st slot with
    | none => (st, .noslot)
    | some h => ofExcept st (syncFileFx fx st.fs h.path)
  | .syncData slot =>
    match getSlot st slot with
    | none => (st, .noslot)
    | some h => ofExcept st (syncFileFx fx st.fs h.path)
  | .hmeta slot =>
    match getSlot st slot with
    | none => (st, .noslot)
    | some h => (st, .file (fileLen st.fs h.path))
  | .mkdir p => ofExcept st (mkdirFx fx st.fs p)
  | .mkdirAll p => ofExcept st (mkdirAllRunFx fx st.fs (mkdirAllCollectFx fx st.fs 16 p).reverse)
  | .rmdir p => ofExcept st (rmdirFx fx st.fs p)
  | .rmdirAll p =>
    let r := rmdirAllFx fx st.fs p
    ({ st with fs := r.1 }, match r.2 with | none => .ok | some e => .err e)
  | .unlink p => ofExcept st (unlinkFx fx st.fs p)
  | .rename p q => ofExcept st (renameFx fx st.fs p q)
  | .syncDir p => ofExcept st (syncDirFx fx st.fs p)
  | .readDir p =>
    if dirExistsFx fx st.fs p then (st, .entries (dirEntryNamesFx fx st.fs p)) else (st, .err .notfound)
  | .stat p =>
    if fileExistsFx fx st.fs p then (st, .file (fileLen st.fs p))
    else if dirExistsFx fx st.fs p then (st, .dir)
    else (st, .err .notfound)
  | .exists p => (st, .bool (fileExistsFx fx st.fs p || dirExistsFx fx st.fs p))
  | .readFile p =>
    if fileExistsFx fx st.fs p then (st, .data (contentFx fx st.fs p)) else (st, .err .notfound)
  | .writeFile p d =>
    match openFsFx fx st.fs p { w := true, c := true, t := true } with
    | .error e => (st, .err e)
    | .ok fs1 => ({ st with fs := writeFsFx fx fs1 p 0 d ora.coin }, .ok)
  | .dump pool => (st, .dump (([] :: pool).map fun p => (p, viewOfFx fx st.fs p)))
  | .crash => ({ fs := crashFx fx st.fs cfg.block ora.torn, slots := fun _ => none }, .ok)

def runFx (fx : Fixes) (cfg : Cfg) : St → List (Op × Ora) → List Obs
  | _, [] => []
  | st, (op, ora) :: r => (stepFx fx cfg st op ora).2 :: runFx fx cfg (stepFx fx cfg st op ora).1 r

def runStFx (fx : Fixes) (cfg : Cfg) : St → List (Op × Ora) → St
  | st, [] => st
  | st, (op, ora) :: r => runStFx fx cfg (stepFx fx cfg st op ora).1 r

/-! ### the durable spec under F-11: a rename is durable as a whole

  The crate documents `sync_dir` as making durable the "renames into or out of this directory".  With
  the repair the implementation does exactly that (both entries of a flushed rename change together),
  so syncing a directory makes durable every entry that is in the directory, and every entry that
  *left it by a still-unsynced rename* — at the place where that rename put it.  The ghost `touched` records which directories the
  unsynced renames of an entry involve and where each rename put the entry: an entry that has been
  removed again (in another, unsynced directory) is durable at that place — the removal is not. -/

def locOf (l : Live) (e : Ent) : Option (Nat × Nat) :=
  match l.ents.find? (fun kv => kv.2 == e) with
  | none => none
  | some kv =>
    match parent kv.1 with
    | none => none
    | some par =>
      match entAt l par with
      | some (.dir pid) => some (pid, kv.1.getLastD 0)
      | _ => none

def parentId (l : Live) (q : Path) : Option Nat :=
  match parent q with
  | none => none
  | some par => dirIdAt l par

/-- ghost update after a live step: an entry that lived somewhere before and now appears at a new
    place (a rename) touches its old and its new parent.  (A plain creation needs no ghost: the entry
    is a child of its parent and becomes durable when that parent is synced.) -/
def touchUpd (l l' : Live) (touched : List (Ent × Nat × (Nat × Nat))) : List (Ent × Nat × (Nat × Nat)) :=
  touched ++ (l'.ents.flatMap fun qe =>
    if l.ents.contains qe then [] else
      match l.ents.find? (fun kv => kv.2 == qe.2) with
      | some kv =>
        -- where the rename put the entry (kept in case the entry is removed again before the sync)
        let dest : Nat × Nat := ((parentId l' qe.1).getD 0, qe.1.getLastD 0)
        (match parentId l' qe.1 with | some d => [(qe.2, d, dest)] | none => [])
        ++ (match parentId l kv.1 with | some d => [(qe.2, d, dest)] | none => [])
      | none => [])

/-- ghost clean-up after `sync_dir` of directory `id`: of an entry that has left the directory, the
    records of the renames up to the last one that involves `id` are consumed (those renames are durable
    now); the records of later renames stay -/
def dropFlushed (id : Nat) (moved : List Ent) :
    List (Ent × Nat × (Nat × Nat)) → List (Ent × Nat × (Nat × Nat))
  | [] => []
  | t :: r =>
    if moved.contains t.1 && ((t :: r).any fun u => u.1 == t.1 && u.2.1 == id) then dropFlushed id moved r
    else t :: dropFlushed id moved r

def sSyncDirBoth (l : Live) (sp : Spec) (p : Path) : Spec :=
  match dirIdAt l p with
  | none => sp
  | some id =>
    let kids : List ((Nat × Nat) × Ent) := (sChildren l p).map fun kv => ((id, kv.1.getLastD 0), kv.2)
    -- entries that left this directory by a still-unsynced rename
    let movedEnts : List Ent := ((sp.touched.filter fun t => t.2.1 == id).map fun t => t.1).filter fun e =>
      !(kids.any fun k => k.2 == e)
    -- ... are durable where the last rename that involves this directory put them: that rename is
    -- durable as a whole; what happened to the entry afterwards in other directories (a further
    -- rename, a removal) is not.  (If that place is in this directory and the entry is not a child any
    -- more, it has been removed here, durably.)
    let movedOut : List ((Nat × Nat) × Ent) := movedEnts.eraseDups.filterMap fun e =>
      match (sp.touched.filter fun t => t.1 == e && t.2.1 == id).getLast? with
      | some t => if t.2.2.1 != id then some (t.2.2, e) else none
      | none => none
    let others := sp.dents.filter fun kv =>
      kv.1.1 != id && !(kids.any fun k => k.2 == kv.2) && !(movedOut.any fun m => m.1 == kv.1 || m.2 == kv.2)
    let d1 := others ++ movedOut ++ kids
    let d2 := match parent p with
      | none => d1
      | some par =>
        match dirIdAt l par with
        | none => d1
        | some pid =>
          let key := (pid, p.getLastD 0)
          if d1.any (fun kv => kv.1 == key) then d1 else d1 ++ [(key, .dir id)]
    let rest := dropFlushed id movedEnts sp.touched
    -- both records of a consumed rename go (they carry the same destination)
    let gone := sp.touched.filter fun t => movedEnts.contains t.1 && !(rest.contains t)
    { sp with dents := d2,
              touched := rest.filter fun t =>
                !(kids.any fun k => k.2 == t.1) && !(gone.any fun g => g.1 == t.1 && g.2.2 == t.2.2) }

def sStepFx (fx : Fixes) (cfg : Cfg) (sp : Spec) (op : Op) (ora : Ora) : Spec × Obs :=
  if fx.syncRenameBoth then
    match op with
    | .syncDir p =>
      let r := lStep sp.l op
      ({ (sSyncDirBoth sp.l sp p) with l := r.1 }, r.2)
    | .crash =>
      let r := sStep cfg sp op ora
      ({ r.1 with touched := [] }, r.2)
    | _ =>
      let r := sStep cfg sp op ora
      ({ r.1 with touched := touchUpd sp.l r.1.l sp.touched }, r.2)
  else sStep cfg sp op ora

def sRunStFx (fx : Fixes) (cfg : Cfg) : Spec → List (Op × Ora) → Spec
  | sp, [] => sp
  | sp, (op, ora) :: r => sRunStFx fx cfg (sStepFx fx cfg sp op ora).1 r

end TV.Fs
