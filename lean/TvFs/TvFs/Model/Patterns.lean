/-
  Decidable history patterns naming the known divergences (findings), and the macro-op alphabet
  used by the exhaustive enumerations (mirrors harness/tv-fs/src/gen.rs).
-/
import TvFs.Model.Fs
import TvFs.Model.Spec

namespace TV.Fs

/-! ### pattern monitor

  A pattern is a decidable predicate on a history.  It is evaluated by replaying the history on the
  implementation model and looking, at every step, at the *shape of the op together with the
  pending log it meets* — never at "the history contains a rename". -/

def pendingRenameTouching (fs : Fs) (x : Path) : Bool :=
  fs.pending.any fun o => match o with
    | .rename s d => s == x || d == x
    | _ => false

def pendingDataOn (fs : Fs) (x : Path) : Bool :=
  fs.pending.any fun o => match o with
    | .write p _ _ => p == x
    | .setLen p _ => p == x
    | _ => false

/-- the file a data / create op addresses, with the kind of access -/
inductive Touch where
  | create (p : Path)          -- creates a file that does not exist
  | trunc (p : Path)           -- open with truncate of an existing file
  | write (p : Path) (off : Nat) (len : Nat)
  | setLen (p : Path) (n : Nat)
  deriving Repr

def touches (st : St) : Op → List Touch
  | .open _ p fl =>
    (if (fl.c || fl.n) && !(fileExists st.fs p) then [.create p] else [])
    ++ (if fl.t && fl.w then [.trunc p] else [])
  | .writeFile p d =>
    (if !(fileExists st.fs p) then [.create p] else []) ++ [.trunc p]
    ++ (if d.isEmpty then [] else [.write p 0 d.length])
  | .writeAt s off d =>
    match getSlot st s with
    | some h => if h.writable && !d.isEmpty then [.write h.path off d.length] else []
    | none => []
  | .write s d =>
    match getSlot st s with
    | some h =>
      if h.writable && !d.isEmpty then
        [.write h.path (if h.append then fileLen st.fs h.path else h.cursor) d.length] else []
    | none => []
  | .setLen s n =>
    match getSlot st s with
    | some h => if h.writable then [.setLen h.path n] else []
    | none => []
  | _ => []

def touchPath : Touch → Path
  | .create p => p | .trunc p => p | .write p _ _ => p | .setLen p _ => p

/-- F-C10-1: the file grows past a still-pending `SetLen` of the same path (stale bytes reappear) -/
def patShrinkGrow (st : St) (op : Op) : Bool :=
  (touches st op).any fun t =>
    match t with
    | .setLen p m => st.fs.pending.any fun o => match o with | .setLen q n => q == p && n < m | _ => false
    | .write p off _ => st.fs.pending.any fun o => match o with | .setLen q n => q == p && n < off | _ => false
    | _ => false

/-- F-C10-2: a file is created under a name that still carries state of a removed / renamed-away
    file (persisted inode or pending data ops keyed by that path) -/
def patRecreate (st : St) (op : Op) : Bool :=
  (touches st op).any fun t =>
    match t with
    | .create p => (alookup p st.fs.files).isSome || pendingDataOn st.fs p
    | _ => false

/-- F-C10-3: a data op or create addresses a path that is source or destination of a pending rename -/
def patDataAcrossRename (st : St) (op : Op) : Bool :=
  (touches st op).any fun t => pendingRenameTouching st.fs (touchPath t)

def popPaths : POp → List Path
  | .createFile p => [p] | .createDir p => [p] | .write p _ _ => [p] | .setLen p _ => [p]
  | .rename s d => [s, d] | .removeFile p => [p] | .removeDir p => [p]

def sharePath (a b : POp) : Bool := (popPaths a).any fun p => (popPaths b).contains p

/-- does flushing the ops selected by `sel` move some op ahead of an *earlier* op it shares a path
    with (which stays in the log)?  `benign k f` exempts pairs the code special-cases. -/
def reorders (sel : POp → Bool) (benign : POp → POp → Bool) : List POp → List POp → Bool
  | _, [] => false
  | kept, o :: r =>
    if sel o then (kept.any fun k => sharePath k o && !(benign k o)) || reorders sel benign kept r
    else reorders sel benign (kept ++ [o]) r

/-- F-C10-4: a sync flushes a subset of the log past an earlier, dependent op that stays pending
    (`sync_dir`: rename / remove / create of an entry whose data ops or own creation are keyed by
    another directory; `sync_all`/`sync_data`: data ops of a path that was removed or renamed) -/
def patSyncReorders (st : St) (op : Op) : Bool :=
  let fileSync (path : Path) : Bool :=
    fileExists st.fs path &&
      reorders (isDataOpOf path) (fun k _ => match k with | .createFile _ => true | _ => false) [] st.fs.pending
  match op with
  | .syncDir d => dirExists st.fs d && reorders (isDirOpOf d) (fun _ _ => false) [] st.fs.pending
  | .syncAll s => match getSlot st s with | some h => fileSync h.path | none => false
  | .syncData s => match getSlot st s with | some h => fileSync h.path | none => false
  | _ => false

/-- F-4 through the random background sync (`sync_probability`): a write / set_len that is followed by
    the `sync_file` of its path flushes the data ops past an earlier op of the same path that stays
    pending (e.g. the `RemoveFile` of the previous file of that name) -/
def patCoinSyncReorders (st : St) (op : Op) : Bool :=
  (touches st op).any fun t =>
    let chk (p : Path) (o : POp) : Bool :=
      reorders (isDataOpOf p) (fun k _ => match k with | .createFile _ => true | _ => false) [] (st.fs.pending ++ [o])
    match t with
    | .write p off len => chk p (.write p off (List.replicate len 0))
    | .setLen p n => chk p (.setLen p n)
    | _ => false

/-- F-C10-5: rename of a directory -/
def patRenameDir (st : St) (op : Op) : Bool :=
  match op with
  | .rename p _ => dirExists st.fs p && !(fileExists st.fs p)
  | _ => false

/-- F-C10-6: a rename whose source or destination is itself source or destination of a pending rename -/
def patRenameAcrossRename (st : St) (op : Op) : Bool :=
  match op with
  | .rename p q => fileExists st.fs p && (pendingRenameTouching st.fs p || pendingRenameTouching st.fs q)
  | _ => false

/-- F-C10-7: `rmdir` of a directory whose only children arrived by a pending rename -/
def patRmdirRenamedIn (st : St) (op : Op) : Bool :=
  match op with
  | .rmdir d => st.fs.pending.any fun o => match o with
      | .rename _ t => isChildOf t d && fileExists st.fs t
      | _ => false
  | _ => false

/-- F-C10-9: a file is created (open with create / create_new, `fs::write`) at a path where a
    directory exists: the open succeeds and the name is a file and a directory at once -/
def patCreateOverDir (st : St) (op : Op) : Bool :=
  (touches st op).any fun t =>
    match t with
    | .create p => dirExists st.fs p
    | _ => false

/-- F-10: `sync_all` / `sync_data` through a name that is source or destination of a pending rename:
    `sync_file` selects data ops by the literal path and misses those keyed by the other name -/
def patFsyncAcrossRename (st : St) (op : Op) : Bool :=
  let chk (s : Nat) : Bool := match getSlot st s with
    | some h => pendingRenameTouching st.fs h.path
    | none => false
  match op with
  | .syncAll s => chk s
  | .syncData s => chk s
  | _ => false

/-- F-11: `sync_dir` of only *one* of the two directories of a pending cross-directory rename.  The
    inode moves to the new name, but `synced_entries` is updated for the synced side only: syncing the
    source leaves the new name without a durable entry for good (a later sync of the destination finds
    no pending rename), syncing the destination leaves a stale durable entry under the old name -/
def patSyncSourceOfCrossRename (st : St) (op : Op) : Bool :=
  match op with
  | .syncDir d =>
    dirExists st.fs d && st.fs.pending.any fun o => match o with
      | .rename s t => isChildOf s d != isChildOf t d
      | _ => false
  | _ => false

/-- F-C07-12a (repaired by the crash-image repair, pattern number 13): the entries that survive a
    crash (persisted and in `synced_entries`) although one of their proper ancestors does not: they stay
    keyed by their path and reappear inside any directory created under the ancestor's name later -/
def orphansAtCrash (fs : Fs) : List Path :=
  let dirs := fs.dirs.filter fun d => fs.synced.contains d
  let ents := ((fs.files.filter fun kv => fs.synced.contains kv.1).map fun kv => kv.1) ++ dirs
  ents.filter fun p => ((List.range p.length).drop 1).any fun k => !(dirs.contains (p.take k))

/-- an orphan with a pending write takes a torn-write decision of its own at the crash (its path is in
    `synced_entries`), which no reachable file accounts for: the survival of every other pending write
    is then decided by a different draw than the durable spec assumes -/
def tornShift (fs : Fs) : List Path :=
  if (orphansAtCrash fs).any fun o => fs.pending.any fun x => match x with | .write p _ _ => p == o | _ => false
  then fs.pending.filterMap fun x => match x with | .write p _ _ => some p | _ => none
  else []

def patOrphanAtCrash (st : St) (op : Op) : Bool :=
  op == .crash && !(orphansAtCrash st.fs).isEmpty

/-- F-C07-12: a name is brought into existence (mkdir, create_dir_all, file creation,
    rename destination) that does not exist now but still carries durable state of a removed
    *directory* or a durable entry (persisted directory, or the path is in `synced_entries`): what is
    made durable for the new entry shows up under the old, still durable, one -/
def recreatedDirs (st : St) (op : Op) : List Path :=
  let cands : List Path := match op with
    | .mkdir p => [p]
    | .mkdirAll p => ((List.range (p.length + 1)).drop 1).map fun k => p.take k
    | .rename _ q => [q]
    | _ => (touches st op).filterMap fun t => match t with | .create p => some p | _ => none
  cands.filter fun q => !(dirExists st.fs q) && !(fileExists st.fs q) &&
    (st.fs.dirs.contains q || st.fs.synced.contains q)

/-- F-C07-12 (what is left of it after the crash-image repair): names re-created over durable state -/
def patDirKeyedByPath (st : St) (op : Op) : Bool := !(recreatedDirs st op).isEmpty

def opSlot : Op → Option Nat
  | .writeAt s _ _ => some s | .readAt s _ _ => some s | .write s _ => some s | .read s _ => some s
  | .seek s _ _ => some s | .setLen s _ => some s | .syncAll s => some s | .syncData s => some s
  | .hmeta s => some s
  | _ => none

/-- F-C10-8: an op through an open handle whose name no longer denotes the file it was opened on
    (the file was unlinked, renamed away or replaced since; handles are keyed by path) -/
def patStaleHandle (sp : Spec) (op : Op) (st : St) : Bool :=
  match opSlot op with
  | none => false
  | some s =>
    match getSlot st s, sGetSlot sp.l s with
    | some h, some sh => entAt sp.l h.path != some (.file sh.fid)
    | _, _ => false

/-- the paths an op addresses (used to tie a pattern hit and an observed divergence together) -/
def opPaths (st : St) : Op → List Path
  | .open _ p _ => [p] | .mkdir p => [p] | .mkdirAll p => [p] | .rmdir p => [p] | .rmdirAll p => [p]
  | .unlink p => [p] | .rename p q => [p, q] | .syncDir p => [p] | .readDir p => [p] | .stat p => [p]
  | .exists p => [p] | .readFile p => [p] | .writeFile p _ => [p]
  | .dump _ => [] | .crash => []
  | op => match opSlot op with
    | some s => match getSlot st s with | some h => [h.path] | none => []
    | none => []

/-- a pattern hit: finding number and the paths it taints -/
abbrev Taint := Nat × Path

def patternsAt (st : St) (sp : Spec) (op : Op) : List Taint :=
  let ps := opPaths st op
  let mk (n : Nat) (b : Bool) (extra : List Path) : List Taint := if b then (ps ++ extra).map fun p => (n, p) else []
  let syncExtra : List Path := match op with
    | .syncDir d => (st.fs.pending.filter (isDirOpOf d)).flatMap popPaths
    | _ => []
  let rmdirExtra : List Path := match op with
    | .rmdir d => st.fs.pending.flatMap fun o => match o with
        | .rename _ t => if isChildOf t d then [t] else []
        | _ => []
    | _ => []
  -- paths linked to the op's paths through pending renames (the replay functions alias them)
  let link (acc : List Path) : List Path :=
    acc ++ (st.fs.pending.flatMap fun o => match o with
      | .rename s d => if acc.contains s || acc.contains d then [s, d] else []
      | _ => [])
  let partners := link (link (link ps))
  mk 1 (patShrinkGrow st op) []
  ++ mk 2 (patRecreate st op) partners
  ++ mk 3 (patDataAcrossRename st op) partners
  ++ mk 4 (patSyncReorders st op) syncExtra
  ++ mk 5 (patRenameDir st op) []
  ++ mk 6 (patRenameAcrossRename st op) partners
  ++ mk 7 (patRmdirRenamedIn st op) rmdirExtra
  ++ mk 9 (patCreateOverDir st op) []
  ++ mk 10 (patFsyncAcrossRename st op) partners
  ++ mk 11 (patSyncSourceOfCrossRename st op) (match op with
      | .syncDir d => st.fs.pending.flatMap fun o => match o with
          | .rename s t => if isChildOf s d != isChildOf t d then [s, t] else []
          | _ => []
      | _ => [])
  ++ mk 12 (patDirKeyedByPath st op) (recreatedDirs st op)
  ++ mk 13 (patOrphanAtCrash st op) (orphansAtCrash st.fs ++ tornShift st.fs)
  ++ (if patStaleHandle sp op st then mk 8 true (partners ++ match opSlot op with
      | some sl => match sGetSlot sp.l sl with
        | some sh =>
          -- the names of the file the handle was opened on: live ones and durable ones (the file may
          -- have been unlinked since, its durable entry is what a later crash shows)
          (sp.l.ents.filterMap fun kv => if kv.2 == .file sh.fid then some kv.1 else none)
          ++ ((rebuild sp.dents 8 [([], 0)]).filterMap fun kv => if kv.2 == .file sh.fid then some kv.1 else none)
        | none => []
      | none => []) else [])

/-- a taint on `t` is relevant for a divergence observed at `p` if `t = p`, if `t` is a proper
    non-root ancestor of `p` (the entry moved with its directory), or if `t` is a direct child of
    `p` (the listing of `p` is what differs) -/
def related (t p : Path) : Bool :=
  t == p || (t != [] && t.isPrefixOf p) || parent t == some p

/-- taints follow successful renames -/
def propagate (ts : List Taint) (op : Op) (ok : Bool) : List Taint :=
  match op with
  | .rename x y =>
    if ok then ts ++ (ts.filterMap fun t => if x.isPrefixOf t.2 then some (t.1, y ++ t.2.drop x.length) else none)
    else ts
  | _ => ts

/-- monitor step: taints after `op` (state arguments are the states *before* the op), given whether
    the op succeeded on the model in use -/
def monStepOk (ts : List Taint) (st : St) (sp : Spec) (op : Op) (ok : Bool) : List Taint :=
  propagate (ts ++ patternsAt st sp op) op ok

def monStep (cfg : Cfg) (ts : List Taint) (st : St) (sp : Spec) (op : Op) (ora : Ora) : List Taint :=
  monStepOk ts st sp op ((step cfg st op ora).2 == .ok)

/-- the finding that explains a divergence observed at `paths`: the earliest taint on a related path -/
def explain (ts : List Taint) (paths : List Path) : Option Nat :=
  match ts.find? (fun t => paths.contains t.2) with
  | some t => some t.1
  | none =>
    match ts.find? (fun t => paths.any fun p => related t.2 p) with
    | some t => some t.1
    | none => none

def findingId (prop : String) (n : Nat) : String := if n = 13 then s!"F-{prop}-12a" else s!"F-{prop}-{n}"

/-- whole-history versions (used by the theorems and the pure-Lean enumeration) -/
def taintsOf (cfg : Cfg) : List Taint → St → Spec → List (Op × Ora) → List Taint
  | ts, _, _, [] => ts
  | ts, st, sp, (op, ora) :: r =>
    taintsOf cfg (monStep cfg ts st sp op ora) (step cfg st op ora).1 (sStep cfg sp op ora).1 r

def matchesFinding (n : Nat) (h : List Op) : Bool :=
  (taintsOf {} [] St.init Spec.init (h.map fun o => (o, {}))).any fun t => t.1 == n

def matchesAnyFinding (h : List Op) : Bool :=
  !(taintsOf {} [] St.init Spec.init (h.map fun o => (o, {}))).isEmpty

/-! ### macro ops (each expands to a few shim calls on the reserved slot 3) -/

def mWriteFile (p : Path) (d : Bytes) : List Op := [.writeFile p d]
def mCreate (p : Path) : List Op := [.open 3 p { w := true, c := true }, .close 3]
def mPWrite (p : Path) (off : Nat) (d : Bytes) : List Op := [.open 3 p { w := true }, .writeAt 3 off d, .close 3]
def mTrunc (p : Path) (n : Nat) : List Op := [.open 3 p { w := true }, .setLen 3 n, .close 3]
def mFsync (p : Path) : List Op := [.open 3 p { r := true }, .syncAll 3, .close 3]

def macroAlphabet (a b d e : Nat) (full : Bool) : List (List Op) :=
  [ mWriteFile [a] [65, 66],
    mPWrite [a] 1 [67, 68, 69],
    mTrunc [a] 1,
    mTrunc [a] 3,
    mFsync [a],
    [.syncDir []],
    [.rename [a] [b]],
    [.rename [b] [a]],
    [.unlink [a]],
    [.mkdir [d]],
    [.rename [a] [d, a]],
    [.syncDir [d]] ]
  ++ (if full then
    [ mWriteFile [b] [90],
      [.rmdir [d]],
      [.rename [d] [e]],
      mPWrite [b] 0 [88, 89],
      mCreate [a],
      [.rename [d, a] [a]],
      [.rename [a] [d]],
      [.rename [d] [a]] ]
  else [])

end TV.Fs
