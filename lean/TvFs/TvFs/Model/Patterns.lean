/-
  Decidable history patterns naming the known divergences (findings), and the macro-op alphabet
  used by the exhaustive enumerations (mirrors harness/tv-fs/src/gen.rs).
-/
import TvFs.Model.Fs

namespace TV.Fs

def matchingPatterns (_prop : String) (_h : List Op) : List String := []

/-! ### macro ops (each expands to a few shim calls on the reserved slot 3) -/

def mWriteFile (p : Path) (d : Bytes) : List Op := [.writeFile p d]
def mCreate (p : Path) : List Op := [.open 3 p { w := true, c := true }, .close 3]
def mPWrite (p : Path) (off : Nat) (d : Bytes) : List Op := [.open 3 p { w := true }, .writeAt 3 off d, .close 3]
def mTrunc (p : Path) (n : Nat) : List Op := [.open 3 p { w := true }, .setLen 3 n, .close 3]
def mFsync (p : Path) : List Op := [.open 3 p { r := true }, .syncAll 3, .close 3]

def macroAlphabet (a b d e : Nat) (full : Bool) : List (List Op) :=
  [ mWriteFile [a] [65, 66],
    mPWrite [a] 1 [67, 68, 69],
    mTrunc [a] 1,
    mTrunc [a] 3,
    mFsync [a],
    [.syncDir []],
    [.rename [a] [b]],
    [.rename [b] [a]],
    [.unlink [a]],
    [.mkdir [d]],
    [.rename [a] [d, a]],
    [.syncDir [d]] ]
  ++ (if full then
    [ mWriteFile [b] [90],
      [.rmdir [d]],
      [.rename [d] [e]],
      mPWrite [b] 0 [88, 89],
      mCreate [a],
      [.rename [d, a] [a]] ]
  else [])

end TV.Fs
