/-
  Implementation model of `turmoil-fs` (crates/turmoil-fs/src/lib.rs + the std/tokio shims).

  The code's design is transcribed *faithfully, bugs included*: persisted maps keyed by path,
  `synced_entries`, the pending-operation log, the replay functions that answer every query by
  scanning the log, and the three sync functions.  Out of scope (the properties exclude them):
  symlinks, hard links, permissions, timestamps, capacity, io errors / corruption / short reads,
  O_DIRECT, latency, page cache.

  Paths are absolute component lists (`[]` = "/"), bytes are `Nat`s.
  Every random decision of the implementation is an explicit oracle input:
  `coin` (random-sync after write / set_len) and `torn` (surviving blocks per pending write).
-/
namespace TV.Fs

abbrev Path := List Nat
abbrev Bytes := List Nat

/-- `Path::parent` -/
def parent : Path → Option Path
  | [] => none
  | p => some p.dropLast

/-- `p.parent() == Some(d)` -/
def isChildOf (p d : Path) : Bool := parent p == some d

/-! ### byte-vector helpers (`Vec::resize`, `copy_from_slice`) -/

/-- `Vec::resize(n, 0)`: truncate or zero-extend to length `n` -/
def resize (b : Bytes) (n : Nat) : Bytes := (List.range n).map fun i => b.getD i 0

/-- write `d` at `off`, extending with zeros (`resize` + `copy_from_slice` in
    apply_op_to_persisted / torn writes) -/
def writeAt (b : Bytes) (off : Nat) (d : Bytes) : Bytes :=
  (List.range (max b.length (off + d.length))).map fun i =>
    if off ≤ i ∧ i < off + d.length then d.getD (i - off) 0 else b.getD i 0

/-- overlay `d` at `off` onto `b` *without* changing the length of `b` (read_file overlay) -/
def overlayClip (b : Bytes) (off : Nat) (d : Bytes) : Bytes :=
  (List.range b.length).map fun i =>
    if off ≤ i ∧ i < off + d.length then d.getD (i - off) 0 else b.getD i 0

/-! ### association lists standing in for `IndexMap<PathBuf, _>` / `IndexSet<PathBuf>` -/

def alookup (k : Path) : List (Path × Bytes) → Option Bytes
  | [] => none
  | (k', v) :: r => if k' = k then some v else alookup k r

def aerase (k : Path) (l : List (Path × Bytes)) : List (Path × Bytes) :=
  l.filter fun kv => kv.1 != k

/-- `IndexMap::insert`: replace the value if the key is present, append otherwise -/
def ainsert (k : Path) (v : Bytes) (l : List (Path × Bytes)) : List (Path × Bytes) :=
  if (alookup k l).isSome then l.map fun kv => if kv.1 = k then (k, v) else kv else l ++ [(k, v)]

def sinsert (k : Path) (l : List Path) : List Path := if l.contains k then l else l ++ [k]
def serase (k : Path) (l : List Path) : List Path := l.filter fun x => x != k

/-- `enum PendingOp` (without symlink / hard link / permissions; timestamps dropped) -/
inductive POp where
  | createFile (p : Path)
  | createDir (p : Path)
  | write (p : Path) (off : Nat) (data : Bytes)
  | setLen (p : Path) (len : Nat)
  | rename (src dst : Path)
  | removeFile (p : Path)
  | removeDir (p : Path)
  deriving DecidableEq, Repr, Inhabited

/-- `struct Fs` -/
structure Fs where
  files : List (Path × Bytes) := []     -- persisted_files (content only)
  dirs : List Path := [[]]              -- persisted_dirs
  synced : List Path := [[]]            -- synced_entries
  pending : List POp := []
  deriving DecidableEq, Repr, Inhabited

def Fs.init : Fs := {}

/-- `apply_op_to_persisted` -/
def applyOp (s : Fs) : POp → Fs
  | .createFile p => if (alookup p s.files).isSome then s else { s with files := s.files ++ [(p, [])] }
  | .createDir p => { s with dirs := sinsert p s.dirs }
  | .write p off d =>
    match alookup p s.files with
    | some c => { s with files := ainsert p (writeAt c off d) s.files }
    | none => s
  | .setLen p n =>
    match alookup p s.files with
    | some c => { s with files := ainsert p (resize c n) s.files }
    | none => s
  | .rename src dst =>
    match alookup src s.files with
    | some c => { s with files := ainsert dst c (aerase src s.files) }
    | none =>
      if s.dirs.contains src then { s with dirs := sinsert dst (serase src s.dirs) } else s
  | .removeFile p => { s with files := aerase p s.files }
  | .removeDir p => { s with dirs := serase p s.dirs }

/-- `resolve_persisted_path` (= `resolve_content_path`, no hard links): walk the log backwards -/
def resolveBack : List POp → Path → Path
  | [], cur => cur
  | .rename src dst :: r, cur => resolveBack r (if dst = cur then src else cur)
  | _ :: r, cur => resolveBack r cur

def resolvePath (s : Fs) (p : Path) : Path := resolveBack s.pending.reverse p

/-- `path_renamed_to` -/
def renamedFwd : List POp → Path → Path
  | [], cur => cur
  | .rename src dst :: r, cur => renamedFwd r (if src = cur then dst else cur)
  | _ :: r, cur => renamedFwd r cur

def pathRenamedTo (s : Fs) (src dst : Path) : Bool := renamedFwd s.pending src == dst

/-- one step of the `file_exists` scan -/
def fileExistsStep (path : Path) (ex : Bool) : POp → Bool
  | .createFile p => if p = path then true else ex
  | .removeFile p => if p = path then false else ex
  | .rename src dst => if src = path then false else if dst = path then true else ex
  | _ => ex

def fileExists (s : Fs) (path : Path) : Bool :=
  s.pending.foldl (fileExistsStep path) (alookup path s.files).isSome

/-- one step of the `dir_exists` scan; `pd` = persisted_dirs at query time -/
def dirExistsStep (pd : List Path) (path : Path) (ex : Bool) : POp → Bool
  | .createDir p => if p = path then true else ex
  | .removeDir p => if p = path then false else ex
  | .rename src dst =>
    if src = path ∧ pd.contains src then false
    else if dst = path ∧ pd.contains src then true else ex
  | _ => ex

def dirExists (s : Fs) (path : Path) : Bool :=
  s.pending.foldl (dirExistsStep s.dirs path) (s.dirs.contains path)

def parentExists (s : Fs) (path : Path) : Bool :=
  match parent path with
  | none => true
  | some d => dirExists s d

def appliesTo (s : Fs) (p cp : Path) : Bool := p == cp || pathRenamedTo s p cp

/-- `file_len` -/
def fileLenStep (s : Fs) (cp : Path) (len : Nat) : POp → Nat
  | .write p off d => if appliesTo s p cp then (if off + d.length > len then off + d.length else len) else len
  | .setLen p n => if appliesTo s p cp then n else len
  | _ => len

def fileLen (s : Fs) (path : Path) : Nat :=
  let cp := resolvePath s path
  s.pending.foldl (fileLenStep s cp) ((alookup cp s.files).getD []).length

/-- `read_file`, as the whole visible content (a read is a slice of it) -/
def contentStep (s : Fs) (cp : Path) (buf : Bytes) : POp → Bytes
  | .write p off d => if appliesTo s p cp then overlayClip buf off d else buf
  | _ => buf

def content (s : Fs) (path : Path) : Bytes :=
  let cp := resolvePath s path
  let base := overlayClip (List.replicate (fileLen s path) 0) 0 ((alookup cp s.files).getD [])
  s.pending.foldl (contentStep s cp) base

def readSlice (s : Fs) (path : Path) (off n : Nat) : Bytes := ((content s path).drop off).take n

/-- `dir_has_children` (note: renames into the directory are not looked at) -/
def dirHasChildren (s : Fs) (path : Path) : Bool :=
  s.files.any (fun kv => isChildOf kv.1 path && fileExists s kv.1)
  || s.dirs.any (fun d => isChildOf d path && dirExists s d)
  || s.pending.any (fun op =>
      match op with
      | .createFile p => isChildOf p path && fileExists s p
      | .createDir p => isChildOf p path && dirExists s p
      | _ => false)

/-- insertion into a sorted duplicate-free list of names -/
def insertSorted (x : Nat) : List Nat → List Nat
  | [] => [x]
  | y :: r => if x < y then x :: y :: r else if x = y then y :: r else y :: insertSorted x r

def sortDedup (l : List Nat) : List Nat := l.foldr insertSorted []

/-- `dir_entries`: the set of child paths -/
def dirEntryPaths (s : Fs) (path : Path) : List Path :=
  (s.files.filterMap fun kv => if isChildOf kv.1 path && fileExists s kv.1 then some kv.1 else none)
  ++ (s.dirs.filter fun d => isChildOf d path && dirExists s d)
  ++ (s.pending.filterMap fun op =>
      match op with
      | .createFile p => if isChildOf p path && fileExists s p then some p else none
      | .createDir p => if isChildOf p path && dirExists s p then some p else none
      | .rename _ dst => if isChildOf dst path && (fileExists s dst || dirExists s dst) then some dst else none
      | _ => none)

def dirEntryNames (s : Fs) (path : Path) : List Nat :=
  sortDedup ((dirEntryPaths s path).map fun p => p.getLastD 0)

/-- error classes (canonicalised `io::Error`) -/
inductive Err where
  | notfound | alreadyexists | permissiondenied | invalidinput | notempty | isdir | notdir
  deriving DecidableEq, Repr, Inhabited

def mkdir (s : Fs) (path : Path) : Except Err Fs :=
  if !(parentExists s path) then .error .notfound
  else if dirExists s path || fileExists s path then .error .alreadyexists
  else .ok { s with pending := s.pending ++ [.createDir path] }

def rmdir (s : Fs) (path : Path) : Except Err Fs :=
  if !(dirExists s path) then .error .notfound
  else if dirHasChildren s path then .error .notempty
  else .ok { s with pending := s.pending ++ [.removeDir path] }

def unlink (s : Fs) (path : Path) : Except Err Fs :=
  if !(fileExists s path) then .error .notfound
  else .ok { s with pending := s.pending ++ [.removeFile path] }

def rename (s : Fs) (src dst : Path) : Except Err Fs :=
  if !(parentExists s dst) then .error .notfound
  else if fileExists s src then
    if dirExists s dst then .error .isdir
    else .ok { s with pending := s.pending ++ [.rename src dst] }
  else if dirExists s src then
    if fileExists s dst then .error .notdir
    else if dirExists s dst && dirHasChildren s dst then .error .notempty
    else .ok { s with pending := s.pending ++ [.rename src dst] }
  else .error .notfound

def isDataOpOf (path : Path) : POp → Bool
  | .write p _ _ => p == path
  | .setLen p _ => p == path
  | _ => false

/-- `sync_file` and `sync_file_data` (identical bodies) -/
def syncFile (s : Fs) (path : Path) : Except Err Fs :=
  if !(fileExists s path) then .error .notfound
  else
    let toFlush := s.pending.filter (isDataOpOf path)
    let toKeep := s.pending.filter (fun op => !(isDataOpOf path op))
    let s1 : Fs := if (alookup path s.files).isSome then s else { s with files := s.files ++ [(path, [])] }
    .ok (toFlush.foldl applyOp { s1 with pending := toKeep })

def isDirOpOf (path : Path) : POp → Bool
  | .createFile p => isChildOf p path
  | .createDir p => p == path || isChildOf p path
  | .removeFile p => isChildOf p path
  | .removeDir p => isChildOf p path
  | .rename src dst => isChildOf src path || isChildOf dst path
  | _ => false

/-- the `synced_entries` bookkeeping of one flushed op in `sync_dir` -/
def syncedUpd (path : Path) (syn : List Path) : POp → List Path
  | .createFile p => if isChildOf p path then sinsert p syn else syn
  | .createDir p => if p == path || isChildOf p path then sinsert p syn else syn
  | .removeFile p => if isChildOf p path then serase p syn else syn
  | .removeDir p => if isChildOf p path then serase p syn else syn
  | .rename src dst =>
    let syn1 := if isChildOf src path then serase src syn else syn
    if isChildOf dst path then sinsert dst syn1 else syn1
  | _ => syn

def syncDirStep (path : Path) (s : Fs) (op : POp) : Fs :=
  applyOp { s with synced := syncedUpd path s.synced op } op

/-- `sync_dir` -/
def syncDir (s : Fs) (path : Path) : Except Err Fs :=
  if !(dirExists s path) then .error .notfound
  else
    let toFlush := s.pending.filter (isDirOpOf path)
    let toKeep := s.pending.filter (fun op => !(isDirOpOf path op))
    .ok (toFlush.foldl (syncDirStep path) { s with pending := toKeep })

/-- `apply_torn_writes`: consumes one oracle value per eligible pending write -/
def tornCollect (syn : List Path) (block : Nat) : List POp → List Nat → List (Path × Nat × Bytes)
  | [], _ => []
  | .write p off d :: r, ora =>
    if !(syn.contains p) then tornCollect syn block r ora
    else
      let total := (d.length + block - 1) / block
      if total = 0 then tornCollect syn block r ora
      else
        let surv := ora.headD 0
        let rest := ora.drop 1
        if surv = 0 then tornCollect syn block r rest
        else (p, off, d.take (min (surv * block) d.length)) :: tornCollect syn block r rest
  | _ :: r, ora => tornCollect syn block r ora

def tornApply (files : List (Path × Bytes)) : List (Path × Nat × Bytes) → List (Path × Bytes)
  | [] => files
  | (p, off, d) :: r =>
    match alookup p files with
    | some c => tornApply (ainsert p (writeAt c off d) files) r
    | none => tornApply files r

/-- `Fs::crash` -/
def crash (s : Fs) (block : Option Nat) (torn : List Nat) : Fs :=
  let files1 := match block with
    | some b => tornApply s.files (tornCollect s.synced b s.pending torn)
    | none => s.files
  { files := files1.filter (fun kv => s.synced.contains kv.1),
    dirs := s.dirs.filter (fun d => s.synced.contains d),
    synced := s.synced,
    pending := [] }

/-! ### the shim layer: `File`, `OpenOptions`, free functions -/

structure Flags where
  r : Bool := false
  w : Bool := false
  a : Bool := false
  t : Bool := false
  c : Bool := false
  n : Bool := false
  deriving DecidableEq, Repr, Inhabited

/-- a `File` value: the path its fd maps to in `open_handles`, the access flags and the cursor -/
structure Handle where
  path : Path
  readable : Bool
  writable : Bool
  append : Bool
  cursor : Nat
  deriving DecidableEq, Repr, Inhabited

structure St where
  fs : Fs := {}
  slots : Nat → Option Handle := fun _ => none     -- the harness' handle slots
  deriving Inhabited

def St.init : St := {}

def getSlot (st : St) (i : Nat) : Option Handle := st.slots i
def dropSlot (st : St) (i : Nat) : St := { st with slots := fun j => if j = i then none else st.slots j }
def setSlot (st : St) (i : Nat) (h : Handle) : St :=
  { st with slots := fun j => if j = i then some h else st.slots j }

inductive View where
  | none
  | file (len : Nat) (b : Bytes)
  | dir (names : List Nat)
  deriving DecidableEq, Repr, Inhabited

inductive Obs where
  | ok
  | okN (n : Nat)
  | data (b : Bytes)
  | err (e : Err)
  | file (len : Nat)
  | dir
  | entries (l : List Nat)
  | bool (b : Bool)
  | noslot
  | dump (l : List (Path × View))
  deriving DecidableEq, Repr, Inhabited

inductive Op where
  | open (slot : Nat) (p : Path) (fl : Flags)
  | close (slot : Nat)
  | writeAt (slot off : Nat) (d : Bytes)
  | readAt (slot off len : Nat)
  | write (slot : Nat) (d : Bytes)
  | read (slot len : Nat)
  | seek (slot whence : Nat) (off : Int)     -- whence: 0 start, 1 current, 2 end
  | setLen (slot n : Nat)
  | syncAll (slot : Nat)
  | syncData (slot : Nat)
  | hmeta (slot : Nat)
  | mkdir (p : Path)
  | mkdirAll (p : Path)
  | rmdir (p : Path)
  | rmdirAll (p : Path)
  | unlink (p : Path)
  | rename (p q : Path)
  | syncDir (p : Path)
  | readDir (p : Path)
  | stat (p : Path)
  | exists (p : Path)
  | readFile (p : Path)
  | writeFile (p : Path) (d : Bytes)
  | dump (pool : List Path)
  | crash
  deriving DecidableEq, Repr, Inhabited

/-- oracle inputs of one op -/
structure Ora where
  coin : Bool := false          -- random-sync coin (only drawn when sync_probability > 0)
  torn : List Nat := []         -- surviving blocks per eligible pending write at a crash
  deriving Repr, Inhabited

structure Cfg where
  block : Option Nat := none
  deriving Repr, Inhabited

def ofExcept (st : St) (r : Except Err Fs) : St × Obs :=
  match r with
  | .ok fs => ({ st with fs := fs }, .ok)
  | .error e => (st, .err e)

/-- `OpenOptions::open`, existence / creation part -/
def openCreate (s : Fs) (p : Path) (fl : Flags) : Except Err Fs :=
  if fileExists s p then
    if fl.n then .error .alreadyexists else .ok s
  else if fl.c || fl.n then
    if !(parentExists s p) then .error .notfound
    else .ok { s with pending := s.pending ++ [.createFile p] }
  else .error .notfound

/-- `OpenOptions::open` on the fs part (truncate is a pending `SetLen 0`) -/
def openFs (s : Fs) (p : Path) (fl : Flags) : Except Err Fs :=
  match openCreate s p fl with
  | .error e => .error e
  | .ok s1 => .ok (if fl.t && fl.w then { s1 with pending := s1.pending ++ [.setLen p 0] } else s1)

/-- `write_at_internal` on an open handle (after the writable check) -/
def writeFs (s : Fs) (p : Path) (off : Nat) (d : Bytes) (coin : Bool) : Fs :=
  let s1 := if d.isEmpty then s else { s with pending := s.pending ++ [.write p off d] }
  if coin then (match syncFile s1 p with | .ok s2 => s2 | .error _ => s1) else s1

def setLenFs (s : Fs) (p : Path) (n : Nat) (coin : Bool) : Fs :=
  let s1 := { s with pending := s.pending ++ [.setLen p n] }
  if coin then (match syncFile s1 p with | .ok s2 => s2 | .error _ => s1) else s1

def viewOf (s : Fs) (p : Path) : View :=
  if fileExists s p then .file (fileLen s p) (content s p)
  else if dirExists s p then .dir (dirEntryNames s p)
  else .none

/-- `create_dir_all`: ancestors (self first) that are not existing directories -/
def mkdirAllCollect (s : Fs) : Nat → Path → List Path
  | 0, _ => []
  | fuel + 1, p =>
    if dirExists s p then []
    else match parent p with
      | none => [p]
      | some q => p :: mkdirAllCollect s fuel q

def mkdirAllRun (s : Fs) : List Path → Except Err Fs
  | [] => .ok s
  | d :: r =>
    if dirExists s d || fileExists s d then mkdirAllRun s r
    else match mkdir s d with
      | .ok s1 => mkdirAllRun s1 r
      | .error e => .error e

/-- `remove_dir_contents_recursive`: works on the fs in place, so the removals done before a failure
    stay (the state is returned together with the error).  Entries are visited in sorted order; the
    code's order is a `HashSet` iteration order, observable only when a removal fails half way. -/
def rmContents : Nat → Fs → Path → Fs × Option Err
  | 0, s, _ => (s, none)
  | fuel + 1, s, path =>
    (dirEntryNames s path).foldl
      (fun acc name =>
        match acc.2 with
        | some _ => acc
        | none =>
          let s1 := acc.1
          let e := path ++ [name]
          if dirExists s1 e then
            let r := rmContents fuel s1 e
            match r.2 with
            | some er => (r.1, some er)
            | none =>
              match rmdir r.1 e with
              | .ok s2 => (s2, none)
              | .error er => (r.1, some er)
          else if fileExists s1 e then
            match unlink s1 e with
            | .ok s2 => (s2, none)
            | .error er => (s1, some er)
          else (s1, none))
      (s, none)

/-- `remove_dir_all` -/
def rmdirAll (s : Fs) (p : Path) : Fs × Option Err :=
  if !(dirExists s p) then (s, some .notfound)
  else
    let r := rmContents 8 s p
    match r.2 with
    | some e => (r.1, some e)
    | none =>
      match rmdir r.1 p with
      | .ok s2 => (s2, none)
      | .error e => (r.1, some e)

/-- one shim call -/
def step (cfg : Cfg) (st : St) (op : Op) (ora : Ora) : St × Obs :=
  match op with
  | .open slot p fl =>
    let st0 := dropSlot st slot
    match openFs st0.fs p fl with
    | .error e => (st0, .err e)
    | .ok fs1 =>
      (setSlot { st0 with fs := fs1 } slot
        { path := p, readable := fl.r, writable := fl.w || fl.a, append := fl.a, cursor := 0 }, .ok)
  | .close slot =>
    match getSlot st slot with
    | none => (st, .noslot)
    | some _ => (dropSlot st slot, .ok)
  | .writeAt slot off d =>
    match getSlot st slot with
    | none => (st, .noslot)
    | some h =>
      if !h.writable then (st, .err .permissiondenied)
      else ({ st with fs := writeFs st.fs h.path off d ora.coin }, .okN d.length)
  | .readAt slot off len =>
    match getSlot st slot with
    | none => (st, .noslot)
    | some h =>
      if !h.readable then (st, .err .permissiondenied)
      else (st, .data (readSlice st.fs h.path off len))
  | .write slot d =>
    match getSlot st slot with
    | none => (st, .noslot)
    | some h =>
      if !h.writable then (st, .err .permissiondenied)
      else
        let off := if h.append then fileLen st.fs h.path else h.cursor
        let st1 := { st with fs := writeFs st.fs h.path off d ora.coin }
        (setSlot st1 slot { h with cursor := off + d.length }, .okN d.length)
  | .read slot len =>
    match getSlot st slot with
    | none => (st, .noslot)
    | some h =>
      if !h.readable then (st, .err .permissiondenied)
      else
        let b := readSlice st.fs h.path h.cursor len
        (setSlot st slot { h with cursor := h.cursor + b.length }, .data b)
  | .seek slot whence off =>
    match getSlot st slot with
    | none => (st, .noslot)
    | some h =>
      let base : Int := if whence = 0 then 0 else if whence = 1 then (h.cursor : Int) else (fileLen st.fs h.path : Int)
      let np := base + off
      if np < 0 then (st, .err .invalidinput)
      else (setSlot st slot { h with cursor := np.toNat }, .okN np.toNat)
  | .setLen slot n =>
    match getSlot st slot with
    | none => (st, .noslot)
    | some h =>
      if !h.writable then (st, .err .permissiondenied)
      else ({ st with fs := setLenFs st.fs h.path n ora.coin }, .ok)
  | .syncAll slot =>
    match getSlot st slot with
    | none => (st, .noslot)
    | some h => ofExcept st (syncFile st.fs h.path)
  | .syncData slot =>
    match getSlot st slot with
    | none => (st, .noslot)
    | some h => ofExcept st (syncFile st.fs h.path)
  | .hmeta slot =>
    match getSlot st slot with
    | none => (st, .noslot)
    | some h => (st, .file (fileLen st.fs h.path))
  | .mkdir p => ofExcept st (mkdir st.fs p)
  | .mkdirAll p => ofExcept st (mkdirAllRun st.fs (mkdirAllCollect st.fs 16 p).reverse)
  | .rmdir p => ofExcept st (rmdir st.fs p)
  | .rmdirAll p =>
    let r := rmdirAll st.fs p
    ({ st with fs := r.1 }, match r.2 with | none => .ok | some e => .err e)
  | .unlink p => ofExcept st (unlink st.fs p)
  | .rename p q => ofExcept st (rename st.fs p q)
  | .syncDir p => ofExcept st (syncDir st.fs p)
  | .readDir p =>
    if dirExists st.fs p then (st, .entries (dirEntryNames st.fs p)) else (st, .err .notfound)
  | .stat p =>
    if fileExists st.fs p then (st, .file (fileLen st.fs p))
    else if dirExists st.fs p then (st, .dir)
    else (st, .err .notfound)
  | .exists p => (st, .bool (fileExists st.fs p || dirExists st.fs p))
  | .readFile p =>
    if fileExists st.fs p then (st, .data (content st.fs p)) else (st, .err .notfound)
  | .writeFile p d =>
    match openFs st.fs p { w := true, c := true, t := true } with
    | .error e => (st, .err e)
    | .ok fs1 => ({ st with fs := writeFs fs1 p 0 d ora.coin }, .ok)
  | .dump pool => (st, .dump (([] :: pool).map fun p => (p, viewOf st.fs p)))
  | .crash => ({ fs := crash st.fs cfg.block ora.torn, slots := fun _ => none }, .ok)

/-- run a whole history; `oras` is consumed one per op -/
def run (cfg : Cfg) : St → List (Op × Ora) → List Obs
  | _, [] => []
  | st, (op, ora) :: r =>
    let (st1, o) := step cfg st op ora
    o :: run cfg st1 r

def runSt (cfg : Cfg) : St → List (Op × Ora) → St
  | st, [] => st
  | st, (op, ora) :: r => runSt cfg (step cfg st op ora).1 r

end TV.Fs
