import TvFs.Props.C07
#print axioms TV.C07.C07_witness_fsyncAcrossRename
#print axioms TV.C07.C07_witness_recreate
#print axioms TV.C07.C07_witness_syncReorders
#print axioms TV.C07.C07_witness_renameDir
#print axioms TV.C07.C07_witness_staleHandle
#print axioms TV.C07.C07_witness_rmdirRenamedIn
#print axioms TV.C07.C07_witness_crossDirRename
#print axioms TV.C07.C07_partial
#print axioms TV.C07.crash_idempotent
#print axioms TV.C07.synced_never_lost
#print axioms TV.C07.unsynced_entry_lost
#print axioms TV.C07.pending_rolled_back
#print axioms TV.C07.never_invents
