import TvFs.Props.C10
#print axioms TV.C10.C10_witness_shrinkGrow
#print axioms TV.C10.C10_witness_recreate
#print axioms TV.C10.C10_witness_dataAcrossRename
#print axioms TV.C10.C10_witness_syncReorders
#print axioms TV.C10.C10_witness_renameDir
#print axioms TV.C10.C10_witness_renameAcrossRename
#print axioms TV.C10.C10_witness_rmdirRenamedIn
#print axioms TV.C10.C10_witness_staleHandle
#print axioms TV.C10.C10_witness_createOverDir
#print axioms TV.C10.C10_witness_fsyncAcrossRename
#print axioms TV.C10.C10_partial
#print axioms TV.C10.C10_sync_invisible
