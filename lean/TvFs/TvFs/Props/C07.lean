/-
  C07 — after a crash the filesystem holds exactly what was made durable.

  The statements are about the model of the code as it is in /repo now: `stepFx Fixes.committed` with
  the durable spec `sStepFx Fixes.committed` (a rename is durable as a whole when either parent
  directory is synced).  `…_before` = the code before the six committed repairs (`step`, `sStep`).
-/
import TvFs.Model.Fs
import TvFs.Model.Spec
import TvFs.Model.Patterns
import TvFs.Proofs.Crash
import TvFs.Proofs.Invents
import TvFs.Proofs.InventsFx
import TvFs.Proofs.Durable4
import TvFs.Proofs.Repairs
import TvFs.Proofs.CommittedSpec
import TvFs.Proofs.DurableX
import TvFs.Proofs.CrashTree

namespace TV.C07
open TV.Fs

/-- Full statement: for every history (crashes allowed anywhere, every oracle input — random-sync
    coins and torn-block counts — universally quantified and shared by both sides), the view right
    after a final crash equals the durable image of the inode-level specification, at every path all
    of whose proper ancestors are durable directories. -/
def C07_Statement : Prop :=
  ∀ (cfg : Cfg) (h : List (Op × Ora)) (ora : Ora) (p : Path),
    let st := runStFx Fixes.committed cfg St.init (h ++ [(Op.crash, ora)])
    let sp := sRunStFx Fixes.committed cfg Spec.init (h ++ [(Op.crash, ora)])
    ancestorsAreDirs sp.l p = true → viewOfFx Fixes.committed st.fs p = sView sp.l p

/-- the same statement for the code (and the durable spec) before the repairs -/
def C07_Statement_before : Prop :=
  ∀ (cfg : Cfg) (h : List (Op × Ora)) (ora : Ora) (p : Path),
    let st := runSt cfg St.init (h ++ [(Op.crash, ora)])
    let sp := sRunSt cfg Spec.init (h ++ [(Op.crash, ora)])
    ancestorsAreDirs sp.l p = true → viewOf st.fs p = sView sp.l p

def a : Path := [97]
def b : Path := [98]
def d : Path := [100]
def R : Flags := { r := true }
def WC : Flags := { w := true, c := true }
def q (l : List Op) : List (Op × Ora) := l.map fun o => (o, {})

/-- view of `p` after `h; crash` on the flagged model / on the flagged durable spec -/
def implAfterCrash (fx : Fixes) (h : List Op) (p : Path) : View :=
  viewOfFx fx (runStFx fx {} St.init (q h ++ [(Op.crash, ({} : Ora))])).fs p
def specAfterCrash (fx : Fixes) (h : List Op) (p : Path) : View :=
  sView (sRunStFx fx {} Spec.init (q h ++ [(Op.crash, ({} : Ora))])).l p

/-! ### open findings: the committed model still violates the statement -/

/-- F-C07-2: write (never fsynced), durable entry, unlink + re-create + fsync of the *new* file:
    the fsync makes the old file's unsynced bytes durable under the old, still durable, entry -/
def hist2 : List Op := [.writeFile a [65, 66], .syncDir [], .unlink a, .open 0 a WC, .syncAll 0]

theorem C07_witness_recreate : ¬ C07_Statement := by
  intro h
  have := h {} (q hist2) {} a (by decide)
  revert this
  decide

/-- F-C07-3 (what is left of it): a file created under the old name of a pending rename and fsynced —
    its bytes become durable in the renamed file, the new file is empty after the crash -/
def hist3c : List Op :=
  [.open 0 a WC, .close 0, .rename a b, .writeFile a [65, 66], .open 1 a R, .syncAll 1, .syncDir []]

theorem C07_witness_dataAcrossRename : ¬ C07_Statement := by
  intro h
  have := h {} (q hist3c) {} a (by decide)
  revert this
  decide

/-- F-C07-4: create /a, mkdir /d, rename /a /d/a, sync_dir /d: the rename is flushed before the
    creation it depends on and the durable entry /d/a has no inode -/
def hist4 : List Op := [.open 0 a WC, .close 0, .mkdir d, .rename a (d ++ a), .syncDir d]

theorem C07_witness_syncReorders : ¬ C07_Statement := by
  intro h
  have := h {} (q hist4) {} (d ++ a) (by decide)
  revert this
  decide

/-- F-C07-5: mkdir /d, rename /d /e, sync_dir /d: the directory that was renamed away is durable
    under its old name -/
def hist5 : List Op := [.mkdir d, .rename d [101], .syncDir d]

theorem C07_witness_renameDir : ¬ C07_Statement := by
  intro h
  have := h {} (q hist5) {} d (by decide)
  revert this
  decide

/-- F-C07-8: a write + fsync through a handle whose file was renamed is lost -/
def hist8 : List Op :=
  [.open 0 a WC, .syncDir [], .rename a b, .syncDir [], .writeAt 0 0 [88, 89], .syncAll 0]

theorem C07_witness_staleHandle : ¬ C07_Statement := by
  intro h
  have := h {} (q hist8) {} b (by decide)
  revert this
  decide

/-- F-C07-12 (what is left of it: names re-created over durable state).  /d is durable; it is removed
    and created again without syncing the root; /d/e is made durable inside the *new* /d.  After the
    crash the old /d — still the durable one — contains the new directory's child: durable state is
    keyed by the path, not by the directory -/
def hist12b : List (Op × Ora) :=
  q [.mkdir d, .syncDir [], .rmdir d, .mkdir d, .mkdir (d ++ [101]), .syncDir (d ++ [101])]

theorem C07_witness_recreatedDir : ¬ C07_Statement := by
  intro h
  have := h {} hist12b {} (d ++ [101]) (by decide)
  revert this
  decide

theorem witness_F_C07_12 :
    viewOfFx Fixes.committed (runStFx Fixes.committed {} St.init (hist12b ++ [(Op.crash, ({} : Ora))])).fs
      (d ++ [101]) = .dir [] ∧
    sView (sRunStFx Fixes.committed {} Spec.init (hist12b ++ [(Op.crash, ({} : Ora))])).l (d ++ [101]) = .none ∧
    matchesFinding 12 (hist12b.map fun x => x.1) = true := by decide

/-! ### repaired findings: `witness_F_…` / `C07_witness_…` on the code before the repair,
    `fixed_F_…` on the committed model -/

/-- F-C07-3, first half (69c39a4 + 5c93fae): data written and fsynced through the new name of a
    renamed file was lost -/
def hist3 : List Op :=
  [.writeFile a [65, 66], .syncDir [], .rename a b, .open 0 b { w := true }, .writeAt 0 0 [88, 89], .syncAll 0,
   .syncDir []]
theorem witness_F_C07_3 : implAfterCrash {} hist3 b ≠ specAfterCrash {} hist3 b := by decide
theorem fixed_F_C07_3 :
    implAfterCrash Fixes.committed hist3 b = specAfterCrash Fixes.committed hist3 b ∧
    implAfterCrash Fixes.committed hist3 b = .file 2 [88, 89] := by decide

/-- F-C07-7 (8aa6329): rmdir of a directory that holds a renamed-in file succeeded, sync_dir of the
    parent made the removal durable -/
def hist7 : List Op := [.mkdir d, .writeFile a [65], .rename a (d ++ a), .rmdir d, .syncDir []]

theorem C07_witness_rmdirRenamedIn : ¬ C07_Statement_before := by
  intro h
  have := h {} (q hist7) {} d (by decide)
  revert this
  decide

theorem witness_F_C07_7 : implAfterCrash {} hist7 d ≠ specAfterCrash {} hist7 d := by decide
theorem fixed_F_C07_7 : implAfterCrash Fixes.committed hist7 d = specAfterCrash Fixes.committed hist7 d := by
  decide

/-- F-C07-9 (977a543): mkdir /d, open /d with create, sync_dir /: /d came back as a regular file -/
def hist9 : List Op := [.mkdir d, .open 0 d WC, .syncDir []]
theorem witness_F_C07_9 : implAfterCrash {} hist9 d ≠ specAfterCrash {} hist9 d := by decide
theorem fixed_F_C07_9 : implAfterCrash Fixes.committed hist9 d = specAfterCrash Fixes.committed hist9 d := by
  decide

/-- F-C07-10 (5c93fae): data written as /b, made durable (entry) by sync_dir, renamed to /a, fsynced
    through the new name: the fsync flushed nothing, the crash lost the data although it was synced -/
def hist10 : List Op := [.writeFile b [90], .syncDir [], .rename b a, .open 0 a R, .syncAll 0]

theorem C07_witness_fsyncAcrossRename : ¬ C07_Statement_before := by
  intro h
  have := h {} (q hist10) {} b (by decide)
  revert this
  decide

theorem witness_F_C07_10 : implAfterCrash {} hist10 b ≠ specAfterCrash {} hist10 b := by decide
theorem fixed_F_C07_10 :
    implAfterCrash Fixes.committed hist10 b = specAfterCrash Fixes.committed hist10 b ∧
    implAfterCrash Fixes.committed hist10 b = .file 1 [90] := by decide

/-- F-C07-11 (3508629): /d/a durable, rename /d/a /b, sync_dir /d (source) then sync_dir /
    (destination): both parents were synced after the rename, yet /b was not durable -/
def hist11 : List Op :=
  [.mkdir d, .open 0 (d ++ a) WC, .close 0, .syncDir [], .syncDir d, .rename (d ++ a) b, .syncDir d, .syncDir []]

theorem C07_witness_crossDirRename : ¬ C07_Statement_before := by
  intro h
  have := h {} (q hist11) {} b (by decide)
  revert this
  decide

theorem witness_F_C07_11 : implAfterCrash {} hist11 b ≠ specAfterCrash {} hist11 b := by decide
theorem fixed_F_C07_11 :
    implAfterCrash Fixes.committed hist11 b = specAfterCrash Fixes.committed hist11 b ∧
    implAfterCrash Fixes.committed hist11 b = .file 0 [] ∧
    implAfterCrash Fixes.committed hist11 (d ++ a) = .none := by decide
/-- …also when only the source directory is synced: the rename is durable as a whole -/
def hist11b : List Op :=
  [.mkdir d, .open 0 (d ++ a) WC, .close 0, .syncDir [], .syncDir d, .rename (d ++ a) b, .syncDir d]
theorem fixed_F_C07_11_sourceOnly :
    implAfterCrash Fixes.committed hist11b b = specAfterCrash Fixes.committed hist11b b ∧
    implAfterCrash Fixes.committed hist11b b = .file 0 [] := by decide
/-- …and syncing only the destination no longer leaves a stale durable entry under the old name -/
def hist11c : List Op :=
  [.mkdir d, .open 0 a WC, .close 0, .syncDir [], .rename a (d ++ a), .syncDir d, .open 1 a WC, .syncAll 1]
theorem witness_F_C07_11_stale : implAfterCrash {} hist11c a ≠ specAfterCrash {} hist11c a := by decide
theorem fixed_F_C07_11_stale :
    implAfterCrash Fixes.committed hist11c a = specAfterCrash Fixes.committed hist11c a := by decide
theorem fixed_F_C07_11_general (fx : Fixes) (path : Path) (syn : List Path) (src dst : Path)
    (hfx : fx.syncRenameBoth = true) :
    (syncedUpdFx fx path syn (.rename src dst)).contains dst = true ∧
    (src ≠ dst → (syncedUpdFx fx path syn (.rename src dst)).contains src = false) :=
  syncedUpdFx_rename fx path syn src dst hfx

/-- all committed repairs together on every C07 canonical history they address -/
theorem fixed_all_C07 :
    implAfterCrash Fixes.committed hist3 b = specAfterCrash Fixes.committed hist3 b ∧
    implAfterCrash Fixes.committed hist7 d = specAfterCrash Fixes.committed hist7 d ∧
    implAfterCrash Fixes.committed hist9 d = specAfterCrash Fixes.committed hist9 d ∧
    implAfterCrash Fixes.committed hist10 b = specAfterCrash Fixes.committed hist10 b ∧
    implAfterCrash Fixes.committed hist11 b = specAfterCrash Fixes.committed hist11 b := by decide

/-! ### F-C07-5: verified candidate repair that was not taken (`renameKind`) -/

def fx5 : Fixes := { Fixes.committed with renameKind := true }
theorem witness_F_C07_5 : implAfterCrash Fixes.committed hist5 d ≠ specAfterCrash Fixes.committed hist5 d := by
  decide
theorem fixed_F_C07_5 : implAfterCrash fx5 hist5 d = specAfterCrash fx5 hist5 d := by decide

/-! ### what is proved -/

/-- F-C07-12a (crash-image repair): /d/e is made durable (`sync_dir /d/e` enters it into /d), but /d
    itself never is (its parent is not synced).  The crash kept the orphan keyed by its path; a new /d
    created and made durable after the restart contained the old /d/e -/
def hist12 : List (Op × Ora) :=
  q [.mkdir d, .mkdir (d ++ [101]), .syncDir (d ++ [101]), .crash, .mkdir d, .syncDir []]

/-- the committed repairs without the crash-image repair -/
def fxBefore12a : Fixes := { Fixes.committed with crashTree := false }

theorem C07_witness_orphanResurfaces :
    ¬ (∀ (p : Path),
        let st := runStFx fxBefore12a {} St.init (hist12 ++ [(Op.crash, ({} : Ora))])
        let sp := sRunStFx fxBefore12a {} Spec.init (hist12 ++ [(Op.crash, ({} : Ora))])
        ancestorsAreDirs sp.l p = true → viewOfFx fxBefore12a st.fs p = sView sp.l p) := by
  intro h
  have := h (d ++ [101]) (by decide)
  revert this
  decide

theorem witness_F_C07_12a :
    viewOfFx fxBefore12a (runStFx fxBefore12a {} St.init (hist12 ++ [(Op.crash, ({} : Ora))])).fs
      (d ++ [101]) = .dir [] ∧
    sView (sRunStFx fxBefore12a {} Spec.init (hist12 ++ [(Op.crash, ({} : Ora))])).l (d ++ [101]) = .none ∧
    matchesFinding 13 (hist12.map fun x => x.1) = true := by decide

/-- with the repair the orphan is gone right after the first crash, and the new /d is empty -/
theorem fixed_F_C07_12a :
    viewOfFx Fixes.committed (runStFx Fixes.committed {} St.init (hist12 ++ [(Op.crash, ({} : Ora))])).fs
      (d ++ [101]) = .none ∧
    viewOfFx Fixes.committed (runStFx Fixes.committed {} St.init (hist12 ++ [(Op.crash, ({} : Ora))])).fs d
      = .dir [] ∧
    viewOfFx Fixes.committed (runStFx Fixes.committed {} St.init (hist12.take 4)).fs (d ++ [101]) = .none ∧
    (∀ p ∈ [d, d ++ [101], a, b],
      viewOfFx Fixes.committed (runStFx Fixes.committed {} St.init (hist12 ++ [(Op.crash, ({} : Ora))])).fs p =
      sView (sRunStFx Fixes.committed {} Spec.init (hist12 ++ [(Op.crash, ({} : Ora))])).l p) := by decide

/-! ### state-level theorems about the crash of the committed code: `crashFx Fixes.committed`
    (= forget the durable names of unreachable entries, then `Fs::crash` as before) -/

abbrev crashC (s : Fs) (b : Option Nat) (t : List Nat) : Fs := crashFx Fixes.committed s b t

/-- crash ∘ crash = crash (any block sizes, any torn-write oracles), for every repair-flag combination -/
theorem crash_idempotent (fx : Fixes) (s : Fs) (b b' : Option Nat) (t t' : List Nat) :
    crashFx fx (crashFx fx s b t) b' t' = crashFx fx s b t := crashFx_crashFx fx s b b' t t'

example : crashC (crashC { Fs.init with pending := [.createFile [1]] } none []) (some 2) [1] =
    crashC { Fs.init with pending := [.createFile [1]] } none [] := crash_idempotent _ _ _ _ _ _

/-- the crash image is a tree: every proper ancestor (below the root) of a surviving file or directory
    is a surviving directory — for every state, block size and torn-write oracle -/
theorem crash_image_is_tree (s : Fs) (b : Option Nat) (t : List Nat) (p : Path)
    (hp : (alookup p (crashC s b t).files).isSome = true ∨ (crashC s b t).dirs.contains p = true) :
    ∀ a ∈ properAncestors p, (crashC s b t).dirs.contains a = true :=
  crashFx_tree Fixes.committed rfl s b t p hp

/-- an inode whose directory entry is durable *and reachable* (every proper ancestor is a durable
    directory) keeps exactly its persisted content across a crash (atomic-write configuration): synced
    data is never lost or altered.  The reachability hypothesis is new with the crash-image repair: it is
    the property's "present iff its directory entry was made durable" read recursively. -/
theorem synced_never_lost (s : Fs) (t : List Nat) (p : Path) (hp : s.synced.contains p = true)
    (ha : attachedTo (durableDirs s) p = true) :
    alookup p (crashC s none t).files = alookup p s.files ∧
    ((crashC s none t).dirs.contains p = s.dirs.contains p) := by
  have hp' : (forgetUnreachable s).synced.contains p = true := by
    rw [forget_synced_contains, hp, ha]; rfl
  constructor
  · exact alookup_filter_of_mem p (forgetUnreachable s).synced hp' s.files
  · show ((forgetUnreachable s).dirs.filter fun d => (forgetUnreachable s).synced.contains d).contains p = _
    rw [Bool.eq_iff_iff]
    simp only [List.contains_iff_mem, List.mem_filter, forget_dirs]
    constructor
    · exact fun h => h.1
    · exact fun h => ⟨h, by simpa using hp'⟩

example : (Fs.init).synced.contains [] = true := by decide

/-- …an inode without a durable entry is gone, whatever was fsynced into it… -/
theorem unsynced_entry_lost (s : Fs) (b : Option Nat) (t : List Nat) (p : Path)
    (hp : s.synced.contains p = false) :
    alookup p (crashC s b t).files = none := by
  have hp' : (forgetUnreachable s).synced.contains p = false := by
    rw [forget_synced_contains, hp]; rfl
  show alookup p (crash (forgetUnreachable s) b t).files = none
  simp only [crash]
  exact alookup_filter_of_not_mem p (forgetUnreachable s).synced hp' _

/-- …and so is an entry with a durable name below a directory that is not durable itself (the orphan
    of F-C07-12a): neither file nor directory survives -/
theorem unreachable_entry_lost (s : Fs) (b : Option Nat) (t : List Nat) (p : Path)
    (ha : attachedTo (durableDirs s) p = false) :
    alookup p (crashC s b t).files = none ∧ (crashC s b t).dirs.contains p = false := by
  have hp' : (forgetUnreachable s).synced.contains p = false := by
    rw [forget_synced_contains, ha]; simp
  constructor
  · show alookup p (crash (forgetUnreachable s) b t).files = none
    simp only [crash]
    exact alookup_filter_of_not_mem p (forgetUnreachable s).synced hp' _
  · show ((forgetUnreachable s).dirs.filter fun d => (forgetUnreachable s).synced.contains d).contains p = false
    rw [Bool.eq_false_iff]
    intro h
    simp only [List.contains_iff_mem, List.mem_filter] at h
    have : (forgetUnreachable s).synced.contains p = true := by simpa using h.2
    rw [hp'] at this; cases this

/-- every unsynced operation is rolled back: without torn writes the post-crash state does not
    depend on the pending log at all -/
theorem pending_rolled_back (s : Fs) (t : List Nat) (ops : List POp) :
    crashC { s with pending := ops } none t = crashC { s with pending := [] } none t := rfl

/-- the same facts for `Fs::crash` as it was before the crash-image repair -/
theorem crash_idempotent_before (s : Fs) (b b' : Option Nat) (t t' : List Nat) :
    crash (crash s b t) b' t' = crash s b t := crash_crash s b b' t t'

theorem synced_never_lost_before (s : Fs) (t : List Nat) (p : Path) (hp : s.synced.contains p = true) :
    alookup p (crash s none t).files = alookup p s.files ∧
    ((crash s none t).dirs.contains p = s.dirs.contains p) := by
  constructor
  · exact alookup_filter_of_mem p s.synced hp s.files
  · simp only [crash]
    rw [Bool.eq_iff_iff]
    simp only [List.contains_iff_mem, List.mem_filter]
    constructor
    · exact fun h => h.1
    · exact fun h => ⟨h, by simpa using hp⟩

/-- the durable refinement for the code before the repairs (relation `D`, `dsim_step`, `crash_view`) -/
theorem C07_partial_before (h : List Op) (hf : flatRun Live.init h = true) (ora : Ora) (n : Nat) :
    let st := runSt {} St.init (quiet h ++ [(Op.crash, ora)])
    let sp := sRunSt {} Spec.init (quiet h ++ [(Op.crash, ora)])
    ancestorsAreDirs sp.l [n] = true → viewOf st.fs [n] = sView sp.l [n] := by
  intro st sp _
  obtain ⟨_, hD⟩ := flat_states h St.init Spec.init R_init D_init hf
  show viewOf (runSt {} St.init (quiet h ++ [(Op.crash, ora)])).fs [n] =
    sView (sRunSt {} Spec.init (quiet h ++ [(Op.crash, ora)])).l [n]
  rw [runSt_append, sRunSt_append]
  exact crash_view hD ora.torn ora.torn n

/-- `C07_partial`: the full statement restricted to the flat fragment `flatRunC` — histories of any
    length over any number of files directly under the root and any number of handles, with **every**
    call except `remove_file` / `remove_dir` / `remove_dir_all` / `rename` / `create_dir` /
    `create_dir_all`: open with every flag combination (create, create_new, append, truncate — also of
    non-empty files), positional and cursor reads and writes with holes and overlaps, `set_len` growing
    *and shrinking*, `fs::write` over existing files, sync_all, sync_data, sync_dir of the root,
    metadata / exists / read_dir / fs::read — crashed after any prefix (the fragment is prefix closed)
    in the atomic-write configuration, for every torn-write oracle.  After the crash a file is present
    iff the root was synced after its creation, with the content of its last data sync; everything else
    is rolled back.  Proof: simulation directly on the model of the committed code — live relation `RX`
    (`sim_stepX`), durable relation `D` (`dsim_stepX`), `crash_view`; the ghost of the repaired durable
    spec stays empty (`sStepFx_c`).
    What stays outside, and why: directories below the root (`D` speaks about root-level files only:
    one key space `(0, n)`; K / O cover them), removal and rename (open findings F-C07-2, 3, 4, 5, 8, 12),
    random background sync and torn writes (`sync_probability`, `block_size`: K / O; the state-level
    theorems below hold for every block size). -/
theorem C07_partial (h : List Op) (hf : flatRunC h = true) (ora : Ora) (n : Nat) :
    let st := runStFx Fixes.committed {} St.init (quiet h ++ [(Op.crash, ora)])
    let sp := sRunStFx Fixes.committed {} Spec.init (quiet h ++ [(Op.crash, ora)])
    ancestorsAreDirs sp.l [n] = true → viewOfFx Fixes.committed st.fs [n] = sView sp.l [n] := by
  intro st sp _
  exact c07_partial_committedX h hf ora n

/-- the fragment of `C07_partial_before` lies inside the new one -/
theorem C07_partial_oldFragment (h : List Op) (hf : flatRun Live.init h = true) (ora : Ora) (n : Nat) :
    let st := runStFx Fixes.committed {} St.init (quiet h ++ [(Op.crash, ora)])
    let sp := sRunStFx Fixes.committed {} Spec.init (quiet h ++ [(Op.crash, ora)])
    ancestorsAreDirs sp.l [n] = true → viewOfFx Fixes.committed st.fs [n] = sView sp.l [n] :=
  C07_partial h (flatRun_flatRunC h _ hf) ora n

/-- the flat fragment is not trivial: two files, one made durable (entry and data), one only
    fsynced, later writes lost -/
def flatExample : List Op :=
  [.open 0 a { r := true, w := true, c := true }, .writeAt 0 1 [65, 66], .syncAll 0, .syncDir [],
   .writeAt 0 0 [67], .open 1 b WC, .writeAt 1 0 [68], .syncAll 1, .setLen 0 5]

example : flatRunC flatExample = true := by decide
example : implAfterCrash Fixes.committed flatExample a = .file 3 [0, 65, 66] := by decide
example : implAfterCrash Fixes.committed flatExample b = .none := by decide

/-- inside the new flat fragment, outside the old one: overwrite by `fs::write` (truncate + write) of
    a durable file, fsynced — the new content is durable; a second overwrite and a shrinking `set_len`
    that are not fsynced are rolled back; truncating open of a non-empty file -/
def flatExampleNew : List Op :=
  [.writeFile a [65, 66, 67, 68], .open 0 a { r := true, w := true }, .syncAll 0, .syncDir [],
   .writeFile a [69, 70], .syncAll 0, .writeFile a [71], .setLen 0 0,
   .open 1 a { w := true, t := true }, .writeFile b [1, 2, 3], .syncDir []]

example : flatRunC flatExampleNew = true := by decide
example : flatRun Live.init flatExampleNew = false := by decide
example : flatRun Live.init [.writeFile a [65], .writeFile a [66]] = false := by decide
example : implAfterCrash Fixes.committed flatExampleNew a = .file 2 [69, 70] := by decide
example : specAfterCrash Fixes.committed flatExampleNew a = .file 2 [69, 70] := by decide
/-- `/b` is durable as a name but its data was never fsynced: an empty file -/
example : implAfterCrash Fixes.committed flatExampleNew b = .file 0 [] := by decide

def bytesWritten (h : List (Op × Ora)) : List Nat := h.flatMap fun x => opData x.1

/-- bytes that were never written never appear: at any time (before or after any number of crashes,
    for every block size and every oracle) every visible byte of every file is 0 or was supplied by
    some write call of the history.  Holds for every combination of repair flags, in particular for
    the committed code. -/
theorem never_invents (fx : Fixes) (cfg : Cfg) (h : List (Op × Ora)) (p : Path) :
    ∀ x ∈ contentFx fx (runStFx fx cfg St.init h).fs p, x = 0 ∨ x ∈ bytesWritten h := by
  have hg : GoodFs (bytesWritten h) (runStFx fx cfg St.init h).fs := by
    apply runStFx_good fx cfg h St.init (init_good _)
    intro x hx y hy
    exact Or.inr (List.mem_flatMap.mpr ⟨x, hx, hy⟩)
  exact contentFx_ok fx hg p

/-- …and for the code before the repairs -/
theorem never_invents_before (cfg : Cfg) (h : List (Op × Ora)) (p : Path) :
    ∀ x ∈ content (runSt cfg St.init h).fs p, x = 0 ∨ x ∈ bytesWritten h := by
  have hg : GoodFs (bytesWritten h) (runSt cfg St.init h).fs := by
    apply runSt_good cfg h St.init (init_good _)
    intro x hx y hy
    exact Or.inr (List.mem_flatMap.mpr ⟨x, hx, hy⟩)
  exact content_ok hg p

example : contentFx Fixes.committed (runStFx Fixes.committed {} St.init (q [.writeFile a [7, 8]])).fs a = [7, 8] := by
  decide

end TV.C07
