/-
  C10 — without a crash the simulated filesystem behaves like a plain POSIX file tree.
-/
import TvFs.Model.Fs
import TvFs.Model.Spec
import TvFs.Model.Patterns

namespace TV.C10
open TV.Fs

/-- no oracle input: all fault probabilities are 0 -/
def quiet (h : List Op) : List (Op × Ora) := h.map fun o => (o, {})

def CrashFree (h : List Op) : Prop := ∀ op ∈ h, op ≠ Op.crash

instance (h : List Op) : Decidable (CrashFree h) := inferInstanceAs (Decidable (∀ op ∈ h, op ≠ Op.crash))

/-- Full statement: on every crash-free history the observations of the implementation model equal
    those of the POSIX tree. -/
def C10_Statement : Prop :=
  ∀ h : List Op, CrashFree h → run {} St.init (quiet h) = sRun {} Spec.init (quiet h)

/-! ### witnesses: the faithful model violates the statement (each closed by evaluation) -/

def a : Path := [97]
def b : Path := [98]
def d : Path := [100]
def e : Path := [101]
def W : Flags := { w := true }
def WC : Flags := { w := true, c := true }
def RW : Flags := { r := true, w := true }
def R : Flags := { r := true }

/-- F-C10-1: write ABCD, set_len 2, set_len 4 reads ABCD -/
def hist1 : List Op :=
  [.writeFile a [65, 66, 67, 68], .open 0 a RW, .setLen 0 2, .setLen 0 4, .readAt 0 0 4]

theorem C10_witness_shrinkGrow : ¬ C10_Statement := by
  intro h
  have := h hist1 (by decide)
  revert this
  decide

/-- F-C10-2: remove + create resurrects the old content -/
def hist2 : List Op := [.writeFile a [65, 66], .unlink a, .open 0 a WC, .close 0, .readFile a]

theorem C10_witness_recreate : ¬ C10_Statement := by
  intro h
  have := h hist2 (by decide)
  revert this
  decide

/-- F-C10-3: a write through a new handle after a pending rename is invisible -/
def hist3 : List Op := [.writeFile a [65, 66], .rename a b, .open 0 b W, .writeAt 0 0 [88, 89], .readFile b]

theorem C10_witness_dataAcrossRename : ¬ C10_Statement := by
  intro h
  have := h hist3 (by decide)
  revert this
  decide

/-- F-C10-4: sync_dir after write + rename turns the file empty -/
def hist4 : List Op := [.writeFile a [65, 66], .rename a b, .syncDir [], .readFile b]

theorem C10_witness_syncReorders : ¬ C10_Statement := by
  intro h
  have := h hist4 (by decide)
  revert this
  decide

/-- F-C10-5: renaming a directory leaves the old name in place and makes the new name a file -/
def hist5 : List Op := [.mkdir d, .rename d e, .stat d, .stat e]

theorem C10_witness_renameDir : ¬ C10_Statement := by
  intro h
  have := h hist5 (by decide)
  revert this
  decide

/-- F-C10-6: rename back and forth over an existing file shows the wrong file's bytes -/
def hist6 : List Op := [.writeFile b [90], .writeFile a [65, 66], .rename b a, .rename a b, .readFile b]

theorem C10_witness_renameAcrossRename : ¬ C10_Statement := by
  intro h
  have := h hist6 (by decide)
  revert this
  decide

/-- F-C10-7: rmdir of a directory whose only child arrived by a pending rename succeeds -/
def hist7 : List Op := [.mkdir d, .writeFile a [65], .rename a (d ++ a), .rmdir d]

theorem C10_witness_rmdirRenamedIn : ¬ C10_Statement := by
  intro h
  have := h hist7 (by decide)
  revert this
  decide

/-- F-C10-8: fsync through a handle whose file was unlinked fails (handles are keyed by path) -/
def hist8 : List Op := [.open 0 a WC, .unlink a, .syncAll 0]

theorem C10_witness_staleHandle : ¬ C10_Statement := by
  intro h
  have := h hist8 (by decide)
  revert this
  decide

/-- F-C10-9: open with create on a directory path succeeds -/
def hist9 : List Op := [.mkdir d, .open 0 d WC]

theorem C10_witness_createOverDir : ¬ C10_Statement := by
  intro h
  have := h hist9 (by decide)
  revert this
  decide

/-- every witness history is matched by the pattern of its finding (and by no earlier one) -/
example : matchesFinding 1 hist1 = true := by decide
example : matchesFinding 2 hist2 = true := by decide
example : matchesFinding 3 hist3 = true := by decide
example : matchesFinding 4 hist4 = true := by decide
example : matchesFinding 5 hist5 = true := by decide
example : matchesFinding 6 hist6 = true := by decide
example : matchesFinding 7 hist7 = true := by decide
example : matchesFinding 8 hist8 = true := by decide
example : matchesFinding 9 hist9 = true := by decide

end TV.C10
