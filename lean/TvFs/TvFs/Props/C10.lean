/-
  C10 — without a crash the simulated filesystem behaves like a plain POSIX file tree.

  The statements are about the model of the code as it is in /repo now: `stepFx Fixes.committed`
  (`Model/Fixed.lean`), i.e. with the six committed repairs 61ef052 8aa6329 977a543 3508629 5c93fae
  69c39a4.  `…_before` = the model of the code before those repairs (`step`).
-/
import TvFs.Model.Fs
import TvFs.Model.Spec
import TvFs.Model.Patterns
import TvFs.Model.Fragment
import TvFs.Proofs.Partial
import TvFs.Proofs.Repairs
import TvFs.Proofs.Committed
import TvFs.Proofs.StepX

namespace TV.C10
open TV.Fs

-- `quiet h` pairs every op with the empty oracle: all fault probabilities are 0
def CrashFree (h : List Op) : Prop := ∀ op ∈ h, op ≠ Op.crash

instance (h : List Op) : Decidable (CrashFree h) := inferInstanceAs (Decidable (∀ op ∈ h, op ≠ Op.crash))

/-- Full statement: on every crash-free history the observations of the implementation model (the
    committed code) equal those of the POSIX tree. -/
def C10_Statement : Prop :=
  ∀ h : List Op, CrashFree h → runFx Fixes.committed {} St.init (quiet h) = sRun {} Spec.init (quiet h)

/-- the same statement for the code before the repairs -/
def C10_Statement_before : Prop :=
  ∀ h : List Op, CrashFree h → run {} St.init (quiet h) = sRun {} Spec.init (quiet h)

def a : Path := [97]
def b : Path := [98]
def d : Path := [100]
def e : Path := [101]
def W : Flags := { w := true }
def WC : Flags := { w := true, c := true }
def RW : Flags := { r := true, w := true }
def R : Flags := { r := true }

/-! ### open findings: the committed model still violates the statement (closed by evaluation) -/

/-- F-C10-2: remove + create resurrects the old content -/
def hist2 : List Op := [.writeFile a [65, 66], .unlink a, .open 0 a WC, .close 0, .readFile a]

theorem C10_witness_recreate : ¬ C10_Statement := by
  intro h
  have := h hist2 (by decide)
  revert this
  decide

/-- F-C10-3 (what is left of it): a file created under the *old* name of a pending rename shares the
    pending-op key with the renamed file — its bytes show up in the renamed file as well -/
def hist3c : List Op := [.open 0 a WC, .close 0, .rename a b, .writeFile a [65, 66], .readFile b]

theorem C10_witness_dataAcrossRename : ¬ C10_Statement := by
  intro h
  have := h hist3c (by decide)
  revert this
  decide

/-- F-C10-4: sync_dir after write + rename turns the file empty -/
def hist4 : List Op := [.writeFile a [65, 66], .rename a b, .syncDir [], .readFile b]

theorem C10_witness_syncReorders : ¬ C10_Statement := by
  intro h
  have := h hist4 (by decide)
  revert this
  decide

/-- F-C10-5: renaming a directory leaves the old name in place and makes the new name a file -/
def hist5 : List Op := [.mkdir d, .rename d e, .stat d, .stat e]

theorem C10_witness_renameDir : ¬ C10_Statement := by
  intro h
  have := h hist5 (by decide)
  revert this
  decide

/-- F-C10-6: rename back and forth over an existing file shows the wrong file's bytes -/
def hist6 : List Op := [.writeFile b [90], .writeFile a [65, 66], .rename b a, .rename a b, .readFile b]

theorem C10_witness_renameAcrossRename : ¬ C10_Statement := by
  intro h
  have := h hist6 (by decide)
  revert this
  decide

/-- F-C10-8: fsync through a handle whose file was unlinked fails (handles are keyed by path) -/
def hist8 : List Op := [.open 0 a WC, .unlink a, .syncAll 0]

theorem C10_witness_staleHandle : ¬ C10_Statement := by
  intro h
  have := h hist8 (by decide)
  revert this
  decide

example : matchesFinding 2 hist2 = true := by decide
example : matchesFinding 3 hist3c = true := by decide
example : matchesFinding 4 hist4 = true := by decide
example : matchesFinding 5 hist5 = true := by decide
example : matchesFinding 6 hist6 = true := by decide
example : matchesFinding 8 hist8 = true := by decide

/-! ### repaired findings: `witness_F_…` / `C10_witness_…` on the code before the repair,
    `fixed_F_…` on the committed model -/

/-- F-C10-1 (61ef052): write ABCD, set_len 2, set_len 4 read ABCD -/
def hist1 : List Op :=
  [.writeFile a [65, 66, 67, 68], .open 0 a RW, .setLen 0 2, .setLen 0 4, .readAt 0 0 4]

theorem C10_witness_shrinkGrow : ¬ C10_Statement_before := by
  intro h
  have := h hist1 (by decide)
  revert this
  decide

theorem witness_F_C10_1 : run {} St.init (quiet hist1) ≠ lRun Live.init hist1 := by decide
theorem fixed_F_C10_1 : runFx Fixes.committed {} St.init (quiet hist1) = lRun Live.init hist1 := by decide
/-- in general: on any rename/remove-free log the repaired `read_file` equals the incremental reading of
    the log, shrinking `set_len`s included -/
theorem fixed_F_C10_1_general (s : Fs) (h : NoRN s.pending) (p : Path) :
    contentFx Fixes.committed s p = inc s p := contentFx_eq_inc' _ rfl s h p

/-- F-C10-3, first half (69c39a4): a write through the new name of a file with a pending rename was
    invisible -/
def hist3 : List Op := [.writeFile a [65, 66], .rename a b, .open 0 b W, .writeAt 0 0 [88, 89], .readFile b]
theorem witness_F_C10_3 : run {} St.init (quiet hist3) ≠ lRun Live.init hist3 := by decide
theorem fixed_F_C10_3 : runFx Fixes.committed {} St.init (quiet hist3) = lRun Live.init hist3 := by decide
/-- the half that stays open, as an inequality on the committed model -/
theorem open_F_C10_3_aliasing : runFx Fixes.committed {} St.init (quiet hist3c) ≠ lRun Live.init hist3c := by
  decide

/-- F-C10-7 (8aa6329): rmdir of a directory whose only child arrived by a pending rename succeeded -/
def hist7 : List Op := [.mkdir d, .writeFile a [65], .rename a (d ++ a), .rmdir d]

theorem C10_witness_rmdirRenamedIn : ¬ C10_Statement_before := by
  intro h
  have := h hist7 (by decide)
  revert this
  decide

theorem witness_F_C10_7 : run {} St.init (quiet hist7) ≠ lRun Live.init hist7 := by decide
theorem fixed_F_C10_7 : runFx Fixes.committed {} St.init (quiet hist7) = lRun Live.init hist7 := by decide
theorem fixed_F_C10_7_general (fx : Fixes) (s : Fs) (dd aa t : Path) (hfx : fx.childRenamedIn = true)
    (hde : dirExistsFx fx s dd = true) (hm : POp.rename aa t ∈ s.pending) (hc : isChildOf t dd = true)
    (he : (fileExistsFx fx s t || dirExistsFx fx s t) = true) : rmdirFx fx s dd = .error .notempty :=
  rmdirFx_renamedIn fx s dd aa t hfx hde hm hc he

/-- F-C10-9 (977a543): open with create on a directory path succeeded -/
def hist9 : List Op := [.mkdir d, .open 0 d WC]

theorem C10_witness_createOverDir : ¬ C10_Statement_before := by
  intro h
  have := h hist9 (by decide)
  revert this
  decide

theorem witness_F_C10_9 : run {} St.init (quiet hist9) ≠ lRun Live.init hist9 := by decide
theorem fixed_F_C10_9 : runFx Fixes.committed {} St.init (quiet hist9) = lRun Live.init hist9 := by decide
theorem fixed_F_C10_9_general (fx : Fixes) (s : Fs) (p : Path) (fl : Flags) (hfx : fx.createOverDir = true)
    (hd : dirExistsFx fx s p = true) (hf : fileExistsFx fx s p = false) (hc : (fl.c || fl.n) = true) :
    openFsFx fx s p fl = .error (if fl.n then .alreadyexists else .isdir) :=
  openFsFx_dir_fails fx s p fl hfx hd hf hc

/-- F-C10-10 (5c93fae): fsync through the new name of a renamed file flushed nothing and planted an
    empty inode under the new name; the following sync_dir then lost the content -/
def hist10 : List Op :=
  [.writeFile a [65, 66], .rename a b, .open 0 b R, .syncAll 0, .syncDir [], .readFile b]

theorem C10_witness_fsyncAcrossRename : ¬ C10_Statement_before := by
  intro h
  have := h hist10 (by decide)
  revert this
  decide

theorem witness_F_C10_10 : run {} St.init (quiet hist10) ≠ lRun Live.init hist10 := by decide
theorem fixed_F_C10_10 : runFx Fixes.committed {} St.init (quiet hist10) = lRun Live.init hist10 := by decide

example : matchesFinding 1 hist1 = true := by decide
example : matchesFinding 7 hist7 = true := by decide
example : matchesFinding 9 hist9 = true := by decide
example : matchesFinding 10 hist10 = true := by decide

/-- with every flag off the flagged model is the model before the repairs -/
example : runFx {} {} St.init (quiet hist1) = run {} St.init (quiet hist1) := by decide
example : runFx {} {} St.init (quiet hist7) = run {} St.init (quiet hist7) := by decide

/-! ### F-C10-5: verified candidate repair that was not taken (`renameKind`, areas/fs/repairs) -/

def fx5 : Fixes := { Fixes.committed with renameKind := true }

theorem witness_F_C10_5 : runFx Fixes.committed {} St.init (quiet hist5) ≠ lRun Live.init hist5 := by decide
/-- with the candidate, renaming an *empty* directory works (old name gone, new name a directory) -/
theorem fixed_F_C10_5 : runFx fx5 {} St.init (quiet hist5) = lRun Live.init hist5 := by decide
def hist5b : List Op :=
  [.mkdir d, .rename d e, .writeFile (e ++ a) [65], .syncDir [], .syncDir e, .readFile (e ++ a), .readDir e,
   .stat d]
theorem fixed_F_C10_5_use : runFx fx5 {} St.init (quiet hist5b) = lRun Live.init hist5b := by decide
/-- what even the candidate cannot reach: a directory renamed *with children* -/
def hist5c : List Op := [.mkdir d, .writeFile (d ++ a) [65], .rename d e, .readFile (e ++ a)]
theorem open_F_C10_5_nonempty : runFx fx5 {} St.init (quiet hist5c) ≠ lRun Live.init hist5c := by decide

/-! ### what is proved: refinement on the fragment -/

/-- the refinement for the code before the repairs (proved by simulation: relation `R`, `sim_step`,
    `syncFile_views` / `syncDir_views`) -/
theorem C10_partial_before (h : List Op) (hf : fragRun Live.init h = true) :
    run {} St.init (quiet h) = sRun {} Spec.init (quiet h) := by
  rw [run_eq_lRun h St.init Live.init R_init hf]
  exact (sRun_eq_lRun h Spec.init (fragRun_crashFree h Live.init hf)).symm

/-- `C10_partial`: on every history of the fragment `fragRunC` — **every** shim call except
    `remove_file`, `remove_dir`, `remove_dir_all`, `rename` and `create_dir_all`, in any order, with any
    arguments — the model of the committed code returns exactly the observations of the POSIX tree.
    The fragment no longer depends on the state: shrinking `set_len`, truncating opens and `fs::write`
    over non-empty files (excluded before the repair of F-C10-1) and opens / `fs::write` that meet a
    directory (F-C10-9) are inside.  Proof: simulation directly on `stepFx Fixes.committed` (relation
    `RX` = `R` without the no-shrink invariant, `sim_stepX`); the repaired read order makes the visible
    content the incremental one whatever `SetLen`s are pending (`contentFx_eq_inc'`).
    What stays outside, and why: removal and rename are exactly where the open findings F-C10-2, 3, 4,
    5, 6, 8 live (the pending log is keyed by path; the proof's invariant `NoRN` = no rename / removal
    pending); `create_dir_all` is only a gap of the proof (covered by K / O). -/
theorem C10_partial (h : List Op) (hf : fragRunC h = true) :
    runFx Fixes.committed {} St.init (quiet h) = sRun {} Spec.init (quiet h) := by
  rw [runFx_eq_lRun h St.init Live.init RX_init hf]
  exact (sRun_eq_lRun h Spec.init (fragRunC_crashFree h hf)).symm

/-- the fragment of `C10_partial_before` lies inside the new one (so the old theorem for the committed
    code is a special case) -/
theorem C10_partial_oldFragment (h : List Op) (hf : fragRun Live.init h = true) :
    runFx Fixes.committed {} St.init (quiet h) = sRun {} Spec.init (quiet h) :=
  C10_partial h (fragRun_fragRunC h Live.init hf)

/-- the fragment is not trivial: create, write with a hole, overlapping write, extend, syncs in
    between, reads, listings -/
def fragExample : List Op :=
  [.mkdir d, .open 0 (d ++ a) { r := true, w := true, c := true }, .writeAt 0 2 [65, 66],
   .syncAll 0, .writeAt 0 3 [67], .setLen 0 6, .syncDir d, .syncDir [], .readAt 0 0 8,
   .writeFile b [1, 2, 3], .seek 0 2 (-1), .read 0 4, .stat (d ++ a), .readDir [], .readDir d,
   .dump [a, b, d, d ++ a], .readFile (d ++ a)]

example : fragRunC fragExample = true := by decide
example : (runFx Fixes.committed {} St.init (quiet fragExample)).getLast? = some (.data [0, 0, 65, 67, 0, 0]) := by
  decide

/-- inside the new fragment, outside the old one: shrink below pending data then grow again (the shape
    of F-C10-1), truncating open of a non-empty file, `fs::write` over a non-empty file, create over a
    directory, `fs::write` onto a directory -/
def fragExampleNew : List Op :=
  [.writeFile a [65, 66, 67, 68], .open 0 a RW, .setLen 0 1, .setLen 0 3, .readFile a,
   .open 1 a { w := true, t := true }, .readFile a, .writeFile a [69, 70], .writeFile a [71], .readFile a,
   .mkdir d, .open 2 d WC, .writeFile d [1], .stat d]

example : fragRunC fragExampleNew = true := by decide
example : fragRun Live.init fragExampleNew = false := by decide
example : fragRun Live.init [.writeFile a [65, 66], .open 0 a RW, .setLen 0 1] = false := by decide
example : fragRun Live.init [.mkdir d, .open 2 d WC] = false := by decide
example : runFx Fixes.committed {} St.init (quiet fragExampleNew) =
    [.ok, .ok, .ok, .ok, .data [65, 0, 0], .ok, .data [], .ok, .ok, .data [71],
     .ok, .err .isdir, .err .isdir, .dir] := by decide
/-- the code before the repairs gets this history wrong (stale bytes after shrink + grow) -/
example : run {} St.init (quiet fragExampleNew) ≠ lRun Live.init fragExampleNew := by decide

/-- `C10_sync_invisible`: inserting a sync_all / sync_data / sync_dir anywhere in a fragment history
    changes no later observation -/
theorem C10_sync_invisible (h1 h2 : List Op) (s : Op) (hs : isSync s = true)
    (hf : fragRunC (h1 ++ h2) = true) :
    (runFx Fixes.committed {} St.init (quiet (h1 ++ s :: h2))).drop (h1.length + 1) =
      (runFx Fixes.committed {} St.init (quiet (h1 ++ h2))).drop h1.length := by
  obtain ⟨l', _, e2, _⟩ := lRun_append h1 h2 Live.init
  have hf2 : fragRunC (h1 ++ s :: h2) = true := by
    simp only [fragRunC, List.all_append, List.all_cons, Bool.and_eq_true] at hf ⊢
    exact ⟨hf.1, fragOkC_sync s hs, hf.2⟩
  rw [runFx_eq_lRun _ St.init Live.init RX_init hf2, runFx_eq_lRun _ St.init Live.init RX_init hf]
  rw [e2 (s :: h2), e2 h2]
  simp only [lRun, lStep_sync l' s hs]
  have L : (lRun Live.init h1).length = h1.length := length_lRun _ _
  rw [← L, List.drop_append, List.drop_left]
  have e : (lRun Live.init h1).length + 1 - (lRun Live.init h1).length = 1 := by omega
  rw [e, List.drop_eq_nil_of_le (by omega)]
  rfl

example : isSync (.syncDir []) = true := rfl

end TV.C10
