/-
  How the three kinds of fragment transitions of the implementation model — pushing a pending op,
  `sync_file`, `sync_dir` — change the views (`fileExists`, `dirExists`, `inc`) and the invariants.
-/
import TvFs.Proofs.Views

namespace TV.Fs

def push (s : Fs) (o : POp) : Fs := { s with pending := s.pending ++ [o] }

theorem push_files (s : Fs) (o : POp) : (push s o).files = s.files := rfl
theorem push_dirs (s : Fs) (o : POp) : (push s o).dirs = s.dirs := rfl
theorem push_pending (s : Fs) (o : POp) : (push s o).pending = s.pending ++ [o] := rfl

theorem push_noRN {s : Fs} {o : POp} (h : NoRN s.pending) (ho : isNs o = true) : NoRN (push s o).pending :=
  h.append (NoRN.single ho)

theorem fileExists_push (s : Fs) (o : POp) (p : Path) :
    fileExists (push s o) p = fileExistsStep p (fileExists s p) o := by
  simp [fileExists, push, List.foldl_append]

theorem dirExists_push (s : Fs) (o : POp) (p : Path) :
    dirExists (push s o) p = dirExistsStep s.dirs p (dirExists s p) o := by
  simp [dirExists, push, List.foldl_append]

theorem inc_push (s : Fs) (o : POp) (p : Path) : inc (push s o) p = incStep p (inc s p) o := by
  simp [inc, push, List.foldl_append]

theorem noShrink_append (p : Path) : ∀ (ops : List POp) (c : Bytes) (o : POp),
    NoShrink p c ops → NoShrink p (ops.foldl (incStep p) c) [o] → NoShrink p c (ops ++ [o]) := by
  intro ops
  induction ops with
  | nil => intro c o _ h; exact h
  | cons x r ih =>
    intro c o h1 h2
    have hr := h1.cons
    have := ih _ o hr h2
    cases x with
    | setLen q n =>
      simp only [NoShrink] at h1
      simp only [List.cons_append, NoShrink]
      exact ⟨h1.1, this⟩
    | write q off d => simpa only [List.cons_append, NoShrink] using this
    | createFile q => simpa only [List.cons_append, NoShrink] using this
    | createDir q => simpa only [List.cons_append, NoShrink] using this
    | rename a b => simpa only [List.cons_append, NoShrink] using this
    | removeFile q => simpa only [List.cons_append, NoShrink] using this
    | removeDir q => simpa only [List.cons_append, NoShrink] using this

/-- pushing an op keeps `NoShrink` if, when it is a `SetLen` of `p`, it does not shrink -/
theorem mono_push (s : Fs) (o : POp) (p : Path)
    (h : NoShrink p ((alookup p s.files).getD []) s.pending)
    (ho : ∀ q n, o = .setLen q n → q = p → (inc s p).length ≤ n) :
    NoShrink p ((alookup p (push s o).files).getD []) (push s o).pending := by
  rw [push_files, push_pending]
  apply noShrink_append p _ _ o h
  cases o with
  | setLen q n =>
    simp only [NoShrink, and_true]
    intro hq
    have : q = p := by simpa using hq
    exact ho q n rfl this
  | write q off d => simp only [NoShrink]
  | createFile q => simp only [NoShrink]
  | createDir q => simp only [NoShrink]
  | rename a b => simp only [NoShrink]
  | removeFile q => simp only [NoShrink]
  | removeDir q => simp only [NoShrink]

/-! ### neutral ops can be dropped from a log -/

/-- `o` does not touch the content of `p` -/
def neutralFor (p : Path) : POp → Bool
  | .write q _ _ => q != p
  | .setLen q _ => q != p
  | _ => true

theorem incStep_neutral {p : Path} {o : POp} (h : neutralFor p o = true) (c : Bytes) : incStep p c o = c := by
  cases o <;> simp only [incStep] <;> simp [neutralFor] at h <;> simp [h]

theorem foldl_inc_filter (p : Path) (f : POp → Bool) : ∀ (ops : List POp) (c : Bytes),
    (∀ o ∈ ops, f o = false → neutralFor p o = true) →
    (ops.filter f).foldl (incStep p) c = ops.foldl (incStep p) c := by
  intro ops
  induction ops with
  | nil => intro c _; rfl
  | cons o r ih =>
    intro c h
    have hr : ∀ x ∈ r, f x = false → neutralFor p x = true := fun x hx => h x (List.mem_cons_of_mem _ hx)
    rw [List.filter_cons]
    by_cases hf : f o = true
    · simp only [hf, if_true, List.foldl_cons]; exact ih _ hr
    · have hf' : f o = false := by simpa using hf
      simp only [hf']
      simp only [List.foldl_cons]
      rw [incStep_neutral (h o List.mem_cons_self hf')]
      exact ih _ hr

theorem noShrink_filter (p : Path) (f : POp → Bool) : ∀ (ops : List POp) (c : Bytes),
    (∀ o ∈ ops, f o = false → neutralFor p o = true) →
    NoShrink p c ops → NoShrink p c (ops.filter f) := by
  intro ops
  induction ops with
  | nil => intro c _ h; exact h
  | cons o r ih =>
    intro c h hns
    have hr : ∀ x ∈ r, f x = false → neutralFor p x = true := fun x hx => h x (List.mem_cons_of_mem _ hx)
    rw [List.filter_cons]
    by_cases hf : f o = true
    · simp only [hf, if_true]
      have := ih _ hr hns.cons
      cases o with
      | setLen q n =>
        simp only [NoShrink] at hns
        simp only [NoShrink]
        exact ⟨hns.1, this⟩
      | write q off d => simpa only [NoShrink] using this
      | createFile q => simpa only [NoShrink] using this
      | createDir q => simpa only [NoShrink] using this
      | rename a b => simpa only [NoShrink] using this
      | removeFile q => simpa only [NoShrink] using this
      | removeDir q => simpa only [NoShrink] using this
    · have hf' : f o = false := by simpa using hf
      simp only [hf']
      have hn := h o List.mem_cons_self hf'
      have := hns.cons
      rw [incStep_neutral hn] at this
      exact ih _ hr this

/-- a log all of whose ops are neutral for `p` never shrinks `p` -/
theorem noShrink_of_neutral (p : Path) : ∀ (ops : List POp) (c : Bytes),
    (∀ o ∈ ops, neutralFor p o = true) → NoShrink p c ops := by
  intro ops
  induction ops with
  | nil => intro c _; trivial
  | cons o r ih =>
    intro c h
    have hr : ∀ x ∈ r, neutralFor p x = true := fun x hx => h x (List.mem_cons_of_mem _ hx)
    have hn := h o List.mem_cons_self
    have := ih (incStep p c o) hr
    cases o with
    | setLen q n =>
      simp only [NoShrink]
      refine ⟨?_, this⟩
      intro hq
      simp [neutralFor] at hn
      simp at hq
      exact absurd hq hn
    | write q off d => simpa only [NoShrink] using this
    | createFile q => simpa only [NoShrink] using this
    | createDir q => simpa only [NoShrink] using this
    | rename a b => simpa only [NoShrink] using this
    | removeFile q => simpa only [NoShrink] using this
    | removeDir q => simpa only [NoShrink] using this

end TV.Fs
