/-
  The relation `FsRel` / `R` without the "no shrinking `SetLen` in the log" invariant (`mono`), and its
  transitions.  It is what the model of the committed code needs (the repaired read order shows the
  incremental content whatever `SetLen`s are pending).
-/
import TvFs.Proofs.Refine

namespace TV.Fs

/-! ### the relation without `NoShrink` -/

/-- `FsRel` without the `mono` field -/
structure FsRelX (fs : Fs) (l : Live) : Prop where
  noRN : NoRN fs.pending
  file : ∀ p, fileExists fs p = isFileAt l p
  dir : ∀ p, dirExists fs p = isDirAt l p
  cont : ∀ p id, entAt l p = some (.file id) → inc fs p = liveContent l id
  ghost : ∀ p, fileExists fs p = false → inc fs p = []
  inj : ∀ p q id, entAt l p = some (.file id) → entAt l q = some (.file id) → p = q
  fresh : ∀ p id, entAt l p = some (.file id) → id < l.next

structure RX (st : St) (l : Live) : Prop where
  fs : FsRelX st.fs l
  slots : SlotRel st.slots l

theorem FsRel.toX {fs : Fs} {l : Live} (h : FsRel fs l) : FsRelX fs l :=
  ⟨h.noRN, h.file, h.dir, h.cont, h.ghost, h.inj, h.fresh⟩

theorem R.toX {st : St} {l : Live} (h : R st l) : RX st l := ⟨h.fs.toX, h.slots⟩

theorem FsRelX.congr {fs : Fs} {l l' : Live} (h : FsRelX fs l) (he : l'.ents = l.ents)
    (hl : l'.live = l.live) (hn : l'.next = l.next) : FsRelX fs l' := by
  have hc : ∀ j, liveContent l' j = liveContent l j := fun j => by unfold liveContent; rw [hl]
  exact {
    noRN := h.noRN,
    file := fun p => by rw [isFileAt_congr he]; exact h.file p
    dir := fun p => by rw [isDirAt_congr he]; exact h.dir p
    cont := fun p id hp => by rw [entAt_congr he] at hp; rw [hc]; exact h.cont p id hp
    ghost := h.ghost
    inj := fun p q id h1 h2 => by rw [entAt_congr he] at h1 h2; exact h.inj p q id h1 h2
    fresh := fun p id h1 => by rw [entAt_congr he] at h1; rw [hn]; exact h.fresh p id h1 }

theorem parentExists_eqX {fs : Fs} {l : Live} (h : FsRelX fs l) (p : Path) :
    parentExists fs p = sParentIsDir l p := by
  unfold parentExists sParentIsDir
  cases parent p with
  | none => rfl
  | some d => exact h.dir d

theorem FsRelX.create {fs : Fs} {l : Live} (h : FsRelX fs l) (p : Path) (hp : entAt l p = none) :
    FsRelX (push fs (.createFile p)) (createL l p) := by
  have hp0 := ne_root_of_entAt_none hp
  have hfe : fileExists fs p = false := by rw [h.file, isFileAt_of_none hp]
  have hnr : NoRN (push fs (.createFile p)).pending := push_noRN h.noRN rfl
  refine ⟨hnr, ?_, ?_, ?_, ?_, ?_, ?_⟩
  · intro q
    rw [fileExists_push]
    simp only [fileExistsStep, isFileAt, entAt_createL l p q hp0]
    by_cases hq : q = p
    · subst hq; simp
    · have : ¬ p = q := fun e => hq e.symm
      simp only [this, hq, if_false]
      exact h.file q
  · intro q
    rw [dirExists_push]
    simp only [dirExistsStep, isDirAt, entAt_createL l p q hp0]
    by_cases hq : q = p
    · subst hq; simp only [if_true]; rw [h.dir, isDirAt_of_none hp]
    · simp only [hq, if_false]; exact h.dir q
  · intro q id hq
    rw [inc_push]
    simp only [incStep]
    rw [entAt_createL l p q hp0] at hq
    rw [liveContent_createL]
    by_cases hqp : q = p
    · subst hqp
      simp only [if_true, Option.some.injEq, Ent.file.injEq] at hq
      subst hq
      simp only [if_true]
      exact h.ghost q hfe
    · simp only [hqp, if_false] at hq
      have := h.fresh q id hq
      have hne : ¬ id = l.next := by omega
      simp only [hne, if_false]
      exact h.cont q id hq
  · intro q hq
    rw [inc_push]
    simp only [incStep]
    rw [fileExists_push] at hq
    simp only [fileExistsStep] at hq
    by_cases hqp : p = q
    · simp [hqp] at hq
    · simp only [hqp, if_false] at hq
      exact h.ghost q hq
  · intro q1 q2 id h1 h2
    rw [entAt_createL l p _ hp0] at h1 h2
    by_cases e1 : q1 = p <;> by_cases e2 : q2 = p
    · rw [e1, e2]
    · simp only [e1, if_true, Option.some.injEq, Ent.file.injEq] at h1
      simp only [e2, if_false] at h2
      have := h.fresh q2 id h2
      omega
    · simp only [e2, if_true, Option.some.injEq, Ent.file.injEq] at h2
      simp only [e1, if_false] at h1
      have := h.fresh q1 id h1
      omega
    · simp only [e1, e2, if_false] at h1 h2
      exact h.inj q1 q2 id h1 h2
  · intro q id hq
    rw [entAt_createL l p q hp0] at hq
    show id < l.next + 1
    by_cases e1 : q = p
    · simp only [e1, if_true, Option.some.injEq, Ent.file.injEq] at hq
      omega
    · simp only [e1, if_false] at hq
      have := h.fresh q id hq
      omega

/-- a data op on an existing file `p` (with id `id`) whose effect on the content is `f` -/
theorem FsRelX.dataop {fs : Fs} {l : Live} (h : FsRelX fs l) (p : Path) (id : Nat) (o : POp)
    (hp : entAt l p = some (.file id)) (ho : isDataOpOf p o = true) :
    FsRelX (push fs o) (setLive l id (incStep p (liveContent l id) o)) := by
  have hnso : isNs o = true := by cases o <;> simp [isDataOpOf] at ho <;> rfl
  have hnr : NoRN (push fs o).pending := push_noRN h.noRN hnso
  have he : (setLive l id (incStep p (liveContent l id) o)).ents = l.ents := rfl
  have hfx : ∀ q b, fileExistsStep q b o = b := by
    intro q b; cases o <;> simp [isDataOpOf] at ho <;> rfl
  have hdx : ∀ q b, dirExistsStep fs.dirs q b o = b := by
    intro q b; cases o <;> simp [isDataOpOf] at ho <;> rfl
  have hneu : ∀ q, q ≠ p → ∀ c, incStep q c o = c := by
    intro q hq c
    apply incStep_neutral
    exact isDataOpOf_neutral (Ne.symm hq) ho
  refine ⟨hnr, ?_, ?_, ?_, ?_, ?_, ?_⟩
  · intro q; rw [fileExists_push, hfx, isFileAt_congr he]; exact h.file q
  · intro q; rw [dirExists_push, hdx, isDirAt_congr he]; exact h.dir q
  · intro q id' hq
    rw [entAt_congr he] at hq
    rw [inc_push, liveContent_setLive]
    by_cases hqp : q = p
    · subst hqp
      have : id' = id := by rw [hp] at hq; cases hq; rfl
      subst this
      simp only [if_true]
      rw [h.cont q id' hq]
    · have hne : ¬ id' = id := fun e => hqp (h.inj q p id (e ▸ hq) hp)
      simp only [hne, if_false]
      rw [hneu q hqp]
      exact h.cont q id' hq
  · intro q hq
    rw [fileExists_push, hfx] at hq
    rw [inc_push]
    have hqp : q ≠ p := by
      intro e; subst e
      rw [h.file, isFileAt_of_ent hp] at hq; cases hq
    rw [hneu q hqp]
    exact h.ghost q hq
  · intro q1 q2 id' h1 h2
    rw [entAt_congr he] at h1 h2
    exact h.inj q1 q2 id' h1 h2
  · intro q id' hq
    rw [entAt_congr he] at hq
    exact h.fresh q id' hq

theorem FsRelX.mkdir {fs : Fs} {l : Live} (h : FsRelX fs l) (p : Path) (hp : entAt l p = none) :
    FsRelX (push fs (.createDir p)) (mkdirL l p) := by
  have hp0 := ne_root_of_entAt_none hp
  have hnr : NoRN (push fs (.createDir p)).pending := push_noRN h.noRN rfl
  have hlc : ∀ j, liveContent (mkdirL l p) j = liveContent l j := fun _ => rfl
  refine ⟨hnr, ?_, ?_, ?_, ?_, ?_, ?_⟩
  · intro q
    rw [fileExists_push]
    simp only [fileExistsStep, isFileAt, entAt_mkdirL l p q hp0]
    by_cases hq : q = p
    · subst hq; simp only [if_true]; rw [h.file, isFileAt_of_none hp]
    · simp only [hq, if_false]; exact h.file q
  · intro q
    rw [dirExists_push]
    simp only [dirExistsStep, isDirAt, entAt_mkdirL l p q hp0]
    by_cases hq : q = p
    · subst hq; simp
    · have : ¬ p = q := fun e => hq e.symm
      simp only [this, hq, if_false]
      exact h.dir q
  · intro q id hq
    rw [entAt_mkdirL l p q hp0] at hq
    by_cases hqp : q = p
    · simp [hqp] at hq
    · simp only [hqp, if_false] at hq
      rw [inc_push, hlc]
      exact h.cont q id hq
  · intro q hq
    rw [fileExists_push] at hq
    rw [inc_push]
    exact h.ghost q hq
  · intro q1 q2 id h1 h2
    rw [entAt_mkdirL l p _ hp0] at h1 h2
    by_cases e1 : q1 = p
    · simp [e1] at h1
    · by_cases e2 : q2 = p
      · simp [e2] at h2
      · simp only [e1, e2, if_false] at h1 h2
        exact h.inj q1 q2 id h1 h2
  · intro q id hq
    rw [entAt_mkdirL l p q hp0] at hq
    show id < l.next + 1
    by_cases e1 : q = p
    · simp [e1] at hq
    · simp only [e1, if_false] at hq
      have := h.fresh q id hq
      omega

/-- a sync that preserves every view keeps the relation -/
theorem FsRelX.sync {fs fs' : Fs} {l : Live} {q : Path} (h : FsRelX fs l) (hs : SyncFileOutX fs fs' q) :
    FsRelX fs' l :=
  { noRN := hs.noRN
    file := fun p => by rw [hs.file]; exact h.file p
    dir := fun p => by rw [hs.dir]; exact h.dir p
    cont := fun p id hp => by rw [hs.inc]; exact h.cont p id hp
    ghost := fun p hp => by rw [hs.inc]; rw [hs.file] at hp; exact h.ghost p hp
    inj := h.inj, fresh := h.fresh }



end TV.Fs
