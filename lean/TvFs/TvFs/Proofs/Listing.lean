/-
  Directory listings: `sortDedup` is canonical (depends only on the set of names), and under the
  simulation relation the implementation's `dir_entries` and the tree's children carry the same names.
-/
import TvFs.Proofs.Refine

namespace TV.Fs

theorem mem_insertSorted (x y : Nat) : ∀ (l : List Nat), y ∈ insertSorted x l ↔ y = x ∨ y ∈ l := by
  intro l
  induction l with
  | nil => simp [insertSorted]
  | cons a r ih =>
    simp only [insertSorted]
    split
    · simp
    · split
      · next h => subst h; simp
      · simp only [List.mem_cons, ih]
        constructor
        · rintro (h | h | h)
          · exact Or.inr (Or.inl h)
          · exact Or.inl h
          · exact Or.inr (Or.inr h)
        · rintro (h | h | h)
          · exact Or.inr (Or.inl h)
          · exact Or.inl h
          · exact Or.inr (Or.inr h)

theorem pairwise_insertSorted (x : Nat) : ∀ (l : List Nat), l.Pairwise (· < ·) → (insertSorted x l).Pairwise (· < ·) := by
  intro l
  induction l with
  | nil => intro _; simp [insertSorted]
  | cons a r ih =>
    intro h
    have hr := (List.pairwise_cons.mp h).2
    have ha := (List.pairwise_cons.mp h).1
    simp only [insertSorted]
    split
    · next hlt =>
      apply List.pairwise_cons.mpr
      refine ⟨?_, h⟩
      intro y hy
      rcases List.mem_cons.mp hy with e | e
      · subst e; exact hlt
      · exact Nat.lt_trans hlt (ha y e)
    · split
      · exact h
      · next h1 h2 =>
        apply List.pairwise_cons.mpr
        refine ⟨?_, ih hr⟩
        intro y hy
        rcases (mem_insertSorted x y r).mp hy with e | e
        · subst e; omega
        · exact ha y e

theorem mem_sortDedup (y : Nat) : ∀ (l : List Nat), y ∈ sortDedup l ↔ y ∈ l := by
  intro l
  induction l with
  | nil => simp [sortDedup]
  | cons a r ih =>
    have : sortDedup (a :: r) = insertSorted a (sortDedup r) := rfl
    rw [this, mem_insertSorted, ih]
    simp [eq_comm]

theorem pairwise_sortDedup : ∀ (l : List Nat), (sortDedup l).Pairwise (· < ·) := by
  intro l
  induction l with
  | nil => simp [sortDedup]
  | cons a r ih =>
    have : sortDedup (a :: r) = insertSorted a (sortDedup r) := rfl
    rw [this]; exact pairwise_insertSorted a _ ih

theorem eq_of_pairwise_of_mem_iff : ∀ (l1 l2 : List Nat), l1.Pairwise (· < ·) → l2.Pairwise (· < ·) →
    (∀ x, x ∈ l1 ↔ x ∈ l2) → l1 = l2 := by
  intro l1
  induction l1 with
  | nil =>
    intro l2 _ _ h
    cases l2 with
    | nil => rfl
    | cons b t => exact absurd ((h b).mpr List.mem_cons_self) (by simp)
  | cons a r ih =>
    intro l2 h1 h2 h
    cases l2 with
    | nil => exact absurd ((h a).mp List.mem_cons_self) (by simp)
    | cons b t =>
      have ha := (List.pairwise_cons.mp h1).1
      have hb := (List.pairwise_cons.mp h2).1
      have hab : a = b := by
        rcases List.mem_cons.mp ((h a).mp List.mem_cons_self) with e | e
        · exact e
        · rcases List.mem_cons.mp ((h b).mpr List.mem_cons_self) with e2 | e2
          · exact e2.symm
          · have := hb a e; have := ha b e2; omega
      subst hab
      congr 1
      apply ih t (List.pairwise_cons.mp h1).2 (List.pairwise_cons.mp h2).2
      intro x
      constructor
      · intro hx
        rcases List.mem_cons.mp ((h x).mp (List.mem_cons_of_mem _ hx)) with e | e
        · subst e; have := ha x hx; omega
        · exact e
      · intro hx
        rcases List.mem_cons.mp ((h x).mpr (List.mem_cons_of_mem _ hx)) with e | e
        · subst e; have := hb x hx; omega
        · exact e

/-- `sortDedup` depends only on the set of names -/
theorem sortDedup_congr (l1 l2 : List Nat) (h : ∀ x, x ∈ l1 ↔ x ∈ l2) : sortDedup l1 = sortDedup l2 :=
  eq_of_pairwise_of_mem_iff _ _ (pairwise_sortDedup l1) (pairwise_sortDedup l2)
    (fun x => by rw [mem_sortDedup, mem_sortDedup]; exact h x)

/-! ### which paths `dir_entries` returns -/

theorem alookup_isSome_iff (q : Path) : ∀ (l : List (Path × Bytes)),
    (alookup q l).isSome = true ↔ ∃ v, (q, v) ∈ l := by
  intro l
  induction l with
  | nil => simp [alookup]
  | cons kv r ih =>
    obtain ⟨k, v⟩ := kv
    by_cases hk : k = q
    · subst hk; simp [alookup]
    · simp only [alookup, hk, if_false, ih, List.mem_cons, Prod.mk.injEq]
      constructor
      · rintro ⟨w, hw⟩; exact ⟨w, Or.inr hw⟩
      · rintro ⟨w, hw | hw⟩
        · exact absurd hw.1.symm hk
        · exact ⟨w, hw⟩

theorem elookup_isSome_iff (q : Path) : ∀ (l : List (Path × Ent)),
    (elookup q l).isSome = true ↔ ∃ e, (q, e) ∈ l := by
  intro l
  induction l with
  | nil => simp [elookup]
  | cons kv r ih =>
    obtain ⟨k, v⟩ := kv
    by_cases hk : k = q
    · subst hk; simp [elookup]
    · simp only [elookup, hk, if_false, ih, List.mem_cons, Prod.mk.injEq]
      constructor
      · rintro ⟨w, hw⟩; exact ⟨w, Or.inr hw⟩
      · rintro ⟨w, hw | hw⟩
        · exact absurd hw.1.symm hk
        · exact ⟨w, hw⟩

theorem hasCreateFile_iff (pend : List POp) (q : Path) : hasCreateFile pend q = true ↔ POp.createFile q ∈ pend := by
  simp [hasCreateFile, List.any_eq_true]

theorem hasCreateDir_iff (pend : List POp) (q : Path) : hasCreateDir pend q = true ↔ POp.createDir q ∈ pend := by
  simp [hasCreateDir, List.any_eq_true]

theorem mem_dirEntryPaths {fs : Fs} (hn : NoRN fs.pending) (p q : Path) :
    q ∈ dirEntryPaths fs p ↔ isChildOf q p = true ∧ (fileExists fs q = true ∨ dirExists fs q = true) := by
  unfold dirEntryPaths
  simp only [List.mem_append, List.mem_filterMap, List.mem_filter]
  constructor
  · rintro ((⟨kv, _, hkv⟩ | ⟨_, hd⟩) | ⟨op, hop, hres⟩)
    · split at hkv
      · next hc => cases hkv; simp only [Bool.and_eq_true] at hc; exact ⟨hc.1, Or.inl hc.2⟩
      · cases hkv
    · simp only [Bool.and_eq_true] at hd; exact ⟨hd.1, Or.inr hd.2⟩
    · have hns := hn op hop
      cases op with
      | createFile a =>
        simp only at hres
        split at hres
        · next hc => cases hres; simp only [Bool.and_eq_true] at hc; exact ⟨hc.1, Or.inl hc.2⟩
        · cases hres
      | createDir a =>
        simp only at hres
        split at hres
        · next hc => cases hres; simp only [Bool.and_eq_true] at hc; exact ⟨hc.1, Or.inr hc.2⟩
        · cases hres
      | write a off d => cases hres
      | setLen a n => cases hres
      | rename a b => simp [isNs] at hns
      | removeFile a => cases hres
      | removeDir a => cases hres
  · rintro ⟨hc, hex | hex⟩
    · have h1 := hex
      rw [fileExists_noRN fs hn, Bool.or_eq_true] at h1
      rcases h1 with h1 | h1
      · obtain ⟨v, hv⟩ := (alookup_isSome_iff q fs.files).mp h1
        exact Or.inl (Or.inl ⟨(q, v), hv, by simp [hc, hex]⟩)
      · exact Or.inr ⟨.createFile q, (hasCreateFile_iff _ _).mp h1, by simp [hc, hex]⟩
    · have h1 := hex
      rw [dirExists_noRN fs hn, Bool.or_eq_true] at h1
      rcases h1 with h1 | h1
      · exact Or.inl (Or.inr ⟨List.contains_iff_mem.mp h1, by simp [hc, hex]⟩)
      · exact Or.inr ⟨.createDir q, (hasCreateDir_iff _ _).mp h1, by simp [hc, hex]⟩

theorem ne_nil_of_isChildOf {q p : Path} (h : isChildOf q p = true) : q ≠ [] := by
  intro e; subst e; simp [isChildOf, parent] at h

/-- under the relation the two listings are the same sorted duplicate-free list of names -/
theorem listing_eq' {fs : Fs} {l : Live} (hnoRN : NoRN fs.pending) (hfile : ∀ p, fileExists fs p = isFileAt l p)
    (hdir : ∀ p, dirExists fs p = isDirAt l p) (p : Path) : dirEntryNames fs p = sChildNames l p := by
  unfold dirEntryNames sChildNames
  apply sortDedup_congr
  intro m
  simp only [List.mem_map]
  constructor
  · rintro ⟨q, hq, hm⟩
    obtain ⟨hc, hex⟩ := (mem_dirEntryPaths hnoRN p q).mp hq
    have hq0 := ne_nil_of_isChildOf hc
    have hsome : (elookup q l.ents).isSome = true := by
      rcases hex with hex | hex
      · rw [hfile] at hex
        unfold isFileAt entAt at hex
        simp only [hq0, if_false] at hex
        cases hl : elookup q l.ents with
        | none => simp [hl] at hex
        | some e => rfl
      · rw [hdir] at hex
        unfold isDirAt entAt at hex
        simp only [hq0, if_false] at hex
        cases hl : elookup q l.ents with
        | none => simp [hl] at hex
        | some e => rfl
    obtain ⟨e, he⟩ := (elookup_isSome_iff q l.ents).mp hsome
    exact ⟨(q, e), by simp [sChildren, he, hc], hm⟩
  · rintro ⟨⟨q, e⟩, hqe, hm⟩
    simp only [sChildren, List.mem_filter] at hqe
    have hq0 := ne_nil_of_isChildOf hqe.2
    have hsome := (elookup_isSome_iff q l.ents).mpr ⟨e, hqe.1⟩
    refine ⟨q, ?_, hm⟩
    apply (mem_dirEntryPaths hnoRN p q).mpr
    refine ⟨hqe.2, ?_⟩
    cases hl : elookup q l.ents with
    | none => simp [hl] at hsome
    | some e' =>
      cases e' with
      | file id =>
        left; rw [hfile]; simp [isFileAt, entAt, hq0, hl]
      | dir id =>
        right; rw [hdir]; simp [isDirAt, entAt, hq0, hl]

theorem listing_eq {fs : Fs} {l : Live} (h : FsRel fs l) (p : Path) : dirEntryNames fs p = sChildNames l p :=
  listing_eq' h.noRN h.file h.dir p

end TV.Fs
