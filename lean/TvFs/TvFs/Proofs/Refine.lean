/-
  The simulation relation between the implementation model and the POSIX tree, and the
  transitions that preserve it ("each op commutes with abs").
-/
import TvFs.Proofs.Syncs
import TvFs.Model.Fragment

namespace TV.Fs

/-! ### the POSIX tree: lookups after updates -/

theorem entAt_root (l : Live) : entAt l [] = some (.dir 0) := by simp [entAt]

theorem ne_root_of_entAt_none {l : Live} {p : Path} (h : entAt l p = none) : p ≠ [] := by
  intro hp; subst hp; rw [entAt_root] at h; cases h

theorem ne_root_of_entAt_file {l : Live} {p : Path} {id : Nat} (h : entAt l p = some (.file id)) : p ≠ [] := by
  intro hp; subst hp; rw [entAt_root] at h; cases h

theorem entAt_congr {l l' : Live} (h : l'.ents = l.ents) (q : Path) : entAt l' q = entAt l q := by
  unfold entAt; rw [h]

theorem elookup_filter_append (p : Path) (e : Ent) (q : Path) : ∀ (ents : List (Path × Ent)),
    elookup q ((ents.filter fun kv => kv.1 != p) ++ [(p, e)]) = if q = p then some e else elookup q ents := by
  intro ents
  induction ents with
  | nil =>
    by_cases hqp : q = p
    · subst hqp; simp [elookup]
    · have : ¬ p = q := fun h => hqp h.symm
      simp [elookup, hqp, this]
  | cons kv r ih =>
    obtain ⟨k, v⟩ := kv
    rw [List.filter_cons]
    by_cases hk : k = p
    · subst hk
      simp only [bne_self_eq_false, Bool.false_eq_true, if_false]
      rw [ih]
      by_cases hqp : q = k
      · simp [hqp]
      · have : ¬ k = q := fun h => hqp h.symm
        simp [elookup, hqp, this]
    · have hk' : (k != p) = true := by simpa using hk
      simp only [hk', if_true, List.cons_append, elookup]
      by_cases hkq : k = q
      · subst hkq; simp [hk]
      · simp only [hkq, if_false]; exact ih

theorem entAt_setEnt (l : Live) (p : Path) (e : Ent) (q : Path) (hp : p ≠ []) :
    entAt (setEnt l p e) q = if q = p then some e else entAt l q := by
  unfold entAt setEnt
  by_cases hq : q = []
  · subst hq
    have : ¬ ([] : Path) = p := fun h => hp h.symm
    simp [this]
  · simp only [hq, if_false]
    exact elookup_filter_append p e q l.ents

theorem isDirAt_congr {l l' : Live} (h : l'.ents = l.ents) (q : Path) : isDirAt l' q = isDirAt l q := by
  unfold isDirAt; rw [entAt_congr h]

theorem isFileAt_congr {l l' : Live} (h : l'.ents = l.ents) (q : Path) : isFileAt l' q = isFileAt l q := by
  unfold isFileAt; rw [entAt_congr h]

theorem liveContent_setLive (l : Live) (id : Nat) (c : Bytes) (j : Nat) :
    liveContent (setLive l id c) j = if j = id then c else liveContent l j := rfl

theorem setLive_ents (l : Live) (id : Nat) (c : Bytes) : (setLive l id c).ents = l.ents := rfl

/-! ### the relation -/

structure HandRel (l : Live) (h : Handle) (sh : SHandle) : Prop where
  r : h.readable = sh.readable
  w : h.writable = sh.writable
  a : h.append = sh.append
  cur : h.cursor = sh.cursor
  ent : entAt l h.path = some (.file sh.fid)

def SlotRel (slots : Nat → Option Handle) (l : Live) : Prop :=
  ∀ i, match slots i, l.handles i with
    | none, none => True
    | some h, some sh => HandRel l h sh
    | _, _ => False

/-- everything except the handle slots -/
structure FsRel (fs : Fs) (l : Live) : Prop where
  noRN : NoRN fs.pending
  mono : ∀ p, NoShrink p ((alookup p fs.files).getD []) fs.pending
  file : ∀ p, fileExists fs p = isFileAt l p
  dir : ∀ p, dirExists fs p = isDirAt l p
  cont : ∀ p id, entAt l p = some (.file id) → inc fs p = liveContent l id
  ghost : ∀ p, fileExists fs p = false → inc fs p = []
  inj : ∀ p q id, entAt l p = some (.file id) → entAt l q = some (.file id) → p = q
  fresh : ∀ p id, entAt l p = some (.file id) → id < l.next

structure R (st : St) (l : Live) : Prop where
  fs : FsRel st.fs l
  slots : SlotRel st.slots l

theorem FsRel.congr {fs : Fs} {l l' : Live} (h : FsRel fs l) (he : l'.ents = l.ents)
    (hl : l'.live = l.live) (hn : l'.next = l.next) : FsRel fs l' := by
  have hc : ∀ j, liveContent l' j = liveContent l j := fun j => by unfold liveContent; rw [hl]
  exact {
    noRN := h.noRN, mono := h.mono,
    file := fun p => by rw [isFileAt_congr he]; exact h.file p
    dir := fun p => by rw [isDirAt_congr he]; exact h.dir p
    cont := fun p id hp => by rw [entAt_congr he] at hp; rw [hc]; exact h.cont p id hp
    ghost := h.ghost
    inj := fun p q id h1 h2 => by rw [entAt_congr he] at h1 h2; exact h.inj p q id h1 h2
    fresh := fun p id h1 => by rw [entAt_congr he] at h1; rw [hn]; exact h.fresh p id h1 }

theorem SlotRel.mono {sl : Nat → Option Handle} {l l' : Live} (h : SlotRel sl l)
    (hh : l'.handles = l.handles)
    (he : ∀ q id, entAt l q = some (.file id) → entAt l' q = some (.file id)) : SlotRel sl l' := by
  intro i
  have := h i
  rw [hh]
  match h1 : sl i, h2 : l.handles i with
  | none, none => trivial
  | none, some _ => simp only [h1, h2] at this
  | some _, none => simp only [h1, h2] at this
  | some hd, some sh =>
    simp only [h1, h2] at this
    exact ⟨this.r, this.w, this.a, this.cur, he _ _ this.ent⟩

theorem SlotRel.drop {sl : Nat → Option Handle} {l : Live} (h : SlotRel sl l) (i : Nat) :
    SlotRel (fun j => if j = i then none else sl j) (sDropSlot l i) := by
  intro j
  have := h j
  simp only [sDropSlot]
  by_cases hj : j = i
  · simp [hj]
  · simp only [hj, if_false]
    match h1 : sl j, h2 : l.handles j with
    | none, none => trivial
    | none, some _ => simp only [h1, h2] at this
    | some _, none => simp only [h1, h2] at this
    | some hd, some sh =>
      simp only [h1, h2] at this
      exact ⟨this.r, this.w, this.a, this.cur, this.ent⟩

theorem SlotRel.set {sl : Nat → Option Handle} {l : Live} (h : SlotRel sl l) (i : Nat)
    (hd : Handle) (sh : SHandle) (hr : HandRel l hd sh) :
    SlotRel (fun j => if j = i then some hd else sl j) (sSetSlot l i sh) := by
  intro j
  have := h j
  simp only [sSetSlot]
  by_cases hj : j = i
  · simp only [hj, if_true]
    exact ⟨hr.r, hr.w, hr.a, hr.cur, hr.ent⟩
  · simp only [hj, if_false]
    match h1 : sl j, h2 : l.handles j with
    | none, none => trivial
    | none, some _ => simp only [h1, h2] at this
    | some _, none => simp only [h1, h2] at this
    | some hd', some sh' =>
      simp only [h1, h2] at this
      exact ⟨this.r, this.w, this.a, this.cur, this.ent⟩

theorem SlotRel.get {sl : Nat → Option Handle} {l : Live} (h : SlotRel sl l) (i : Nat) :
    (sl i = none ∧ l.handles i = none) ∨ ∃ hd sh, sl i = some hd ∧ l.handles i = some sh ∧ HandRel l hd sh := by
  have := h i
  match h1 : sl i, h2 : l.handles i with
  | none, none => exact Or.inl ⟨rfl, rfl⟩
  | none, some _ => simp only [h1, h2] at this
  | some _, none => simp only [h1, h2] at this
  | some hd, some sh =>
    simp only [h1, h2] at this
    exact Or.inr ⟨_, _, rfl, rfl, this⟩

/-! ### transitions of `FsRel` -/

theorem parentExists_eq {fs : Fs} {l : Live} (h : FsRel fs l) (p : Path) :
    parentExists fs p = sParentIsDir l p := by
  unfold parentExists sParentIsDir
  cases parent p with
  | none => rfl
  | some d => exact h.dir d

theorem isFileAt_of_ent {l : Live} {p : Path} {id : Nat} (h : entAt l p = some (.file id)) : isFileAt l p = true := by
  simp [isFileAt, h]

theorem isDirAt_of_file {l : Live} {p : Path} {id : Nat} (h : entAt l p = some (.file id)) : isDirAt l p = false := by
  simp [isDirAt, h]

theorem isFileAt_of_none {l : Live} {p : Path} (h : entAt l p = none) : isFileAt l p = false := by
  simp [isFileAt, h]

theorem isDirAt_of_none {l : Live} {p : Path} (h : entAt l p = none) : isDirAt l p = false := by
  simp [isDirAt, h]

/-- creating a file -/
def createL (l : Live) (p : Path) : Live :=
  { (setLive (setEnt l p (.file l.next)) l.next []) with next := l.next + 1 }

theorem entAt_createL (l : Live) (p q : Path) (hp : p ≠ []) :
    entAt (createL l p) q = if q = p then some (.file l.next) else entAt l q := by
  have : (createL l p).ents = (setEnt l p (.file l.next)).ents := rfl
  rw [entAt_congr this, entAt_setEnt _ _ _ _ hp]

theorem liveContent_createL (l : Live) (p : Path) (j : Nat) :
    liveContent (createL l p) j = if j = l.next then [] else liveContent l j := rfl

theorem FsRel.create {fs : Fs} {l : Live} (h : FsRel fs l) (p : Path) (hp : entAt l p = none) :
    FsRel (push fs (.createFile p)) (createL l p) := by
  have hp0 := ne_root_of_entAt_none hp
  have hfe : fileExists fs p = false := by rw [h.file, isFileAt_of_none hp]
  have hnr : NoRN (push fs (.createFile p)).pending := push_noRN h.noRN rfl
  refine ⟨hnr, ?_, ?_, ?_, ?_, ?_, ?_, ?_⟩
  · intro q
    exact mono_push fs _ q (h.mono q) (fun _ _ he _ => by cases he)
  · intro q
    rw [fileExists_push]
    simp only [fileExistsStep, isFileAt, entAt_createL l p q hp0]
    by_cases hq : q = p
    · subst hq; simp
    · have : ¬ p = q := fun e => hq e.symm
      simp only [this, hq, if_false]
      exact h.file q
  · intro q
    rw [dirExists_push]
    simp only [dirExistsStep, isDirAt, entAt_createL l p q hp0]
    by_cases hq : q = p
    · subst hq; simp only [if_true]; rw [h.dir, isDirAt_of_none hp]
    · simp only [hq, if_false]; exact h.dir q
  · intro q id hq
    rw [inc_push]
    simp only [incStep]
    rw [entAt_createL l p q hp0] at hq
    rw [liveContent_createL]
    by_cases hqp : q = p
    · subst hqp
      simp only [if_true, Option.some.injEq, Ent.file.injEq] at hq
      subst hq
      simp only [if_true]
      exact h.ghost q hfe
    · simp only [hqp, if_false] at hq
      have := h.fresh q id hq
      have hne : ¬ id = l.next := by omega
      simp only [hne, if_false]
      exact h.cont q id hq
  · intro q hq
    rw [inc_push]
    simp only [incStep]
    rw [fileExists_push] at hq
    simp only [fileExistsStep] at hq
    by_cases hqp : p = q
    · simp [hqp] at hq
    · simp only [hqp, if_false] at hq
      exact h.ghost q hq
  · intro q1 q2 id h1 h2
    rw [entAt_createL l p _ hp0] at h1 h2
    by_cases e1 : q1 = p <;> by_cases e2 : q2 = p
    · rw [e1, e2]
    · simp only [e1, if_true, Option.some.injEq, Ent.file.injEq] at h1
      simp only [e2, if_false] at h2
      have := h.fresh q2 id h2
      omega
    · simp only [e2, if_true, Option.some.injEq, Ent.file.injEq] at h2
      simp only [e1, if_false] at h1
      have := h.fresh q1 id h1
      omega
    · simp only [e1, e2, if_false] at h1 h2
      exact h.inj q1 q2 id h1 h2
  · intro q id hq
    rw [entAt_createL l p q hp0] at hq
    show id < l.next + 1
    by_cases e1 : q = p
    · simp only [e1, if_true, Option.some.injEq, Ent.file.injEq] at hq
      omega
    · simp only [e1, if_false] at hq
      have := h.fresh q id hq
      omega

/-- a data op on an existing file `p` (with id `id`) whose effect on the content is `f` -/
theorem FsRel.dataop {fs : Fs} {l : Live} (h : FsRel fs l) (p : Path) (id : Nat) (o : POp)
    (hp : entAt l p = some (.file id)) (ho : isDataOpOf p o = true)
    (hns : ∀ q n, o = .setLen q n → q = p → (inc fs p).length ≤ n) :
    FsRel (push fs o) (setLive l id (incStep p (liveContent l id) o)) := by
  have hnso : isNs o = true := by cases o <;> simp [isDataOpOf] at ho <;> rfl
  have hnr : NoRN (push fs o).pending := push_noRN h.noRN hnso
  have he : (setLive l id (incStep p (liveContent l id) o)).ents = l.ents := rfl
  have hfx : ∀ q b, fileExistsStep q b o = b := by
    intro q b; cases o <;> simp [isDataOpOf] at ho <;> rfl
  have hdx : ∀ q b, dirExistsStep fs.dirs q b o = b := by
    intro q b; cases o <;> simp [isDataOpOf] at ho <;> rfl
  have hneu : ∀ q, q ≠ p → ∀ c, incStep q c o = c := by
    intro q hq c
    apply incStep_neutral
    exact isDataOpOf_neutral (Ne.symm hq) ho
  refine ⟨hnr, ?_, ?_, ?_, ?_, ?_, ?_, ?_⟩
  · intro q
    apply mono_push fs _ q (h.mono q)
    intro a n hoa haq
    subst hoa
    have : a = p := by simpa [isDataOpOf] using ho
    subst this; subst haq
    exact hns _ n rfl rfl
  · intro q; rw [fileExists_push, hfx, isFileAt_congr he]; exact h.file q
  · intro q; rw [dirExists_push, hdx, isDirAt_congr he]; exact h.dir q
  · intro q id' hq
    rw [entAt_congr he] at hq
    rw [inc_push, liveContent_setLive]
    by_cases hqp : q = p
    · subst hqp
      have : id' = id := by rw [hp] at hq; cases hq; rfl
      subst this
      simp only [if_true]
      rw [h.cont q id' hq]
    · have hne : ¬ id' = id := fun e => hqp (h.inj q p id (e ▸ hq) hp)
      simp only [hne, if_false]
      rw [hneu q hqp]
      exact h.cont q id' hq
  · intro q hq
    rw [fileExists_push, hfx] at hq
    rw [inc_push]
    have hqp : q ≠ p := by
      intro e; subst e
      rw [h.file, isFileAt_of_ent hp] at hq; cases hq
    rw [hneu q hqp]
    exact h.ghost q hq
  · intro q1 q2 id' h1 h2
    rw [entAt_congr he] at h1 h2
    exact h.inj q1 q2 id' h1 h2
  · intro q id' hq
    rw [entAt_congr he] at hq
    exact h.fresh q id' hq

/-- creating a directory -/
def mkdirL (l : Live) (p : Path) : Live := { (setEnt l p (.dir l.next)) with next := l.next + 1 }

theorem entAt_mkdirL (l : Live) (p q : Path) (hp : p ≠ []) :
    entAt (mkdirL l p) q = if q = p then some (.dir l.next) else entAt l q := by
  have : (mkdirL l p).ents = (setEnt l p (.dir l.next)).ents := rfl
  rw [entAt_congr this, entAt_setEnt _ _ _ _ hp]

theorem FsRel.mkdir {fs : Fs} {l : Live} (h : FsRel fs l) (p : Path) (hp : entAt l p = none) :
    FsRel (push fs (.createDir p)) (mkdirL l p) := by
  have hp0 := ne_root_of_entAt_none hp
  have hnr : NoRN (push fs (.createDir p)).pending := push_noRN h.noRN rfl
  have hlc : ∀ j, liveContent (mkdirL l p) j = liveContent l j := fun _ => rfl
  refine ⟨hnr, ?_, ?_, ?_, ?_, ?_, ?_, ?_⟩
  · intro q
    exact mono_push fs _ q (h.mono q) (fun _ _ he _ => by cases he)
  · intro q
    rw [fileExists_push]
    simp only [fileExistsStep, isFileAt, entAt_mkdirL l p q hp0]
    by_cases hq : q = p
    · subst hq; simp only [if_true]; rw [h.file, isFileAt_of_none hp]
    · simp only [hq, if_false]; exact h.file q
  · intro q
    rw [dirExists_push]
    simp only [dirExistsStep, isDirAt, entAt_mkdirL l p q hp0]
    by_cases hq : q = p
    · subst hq; simp
    · have : ¬ p = q := fun e => hq e.symm
      simp only [this, hq, if_false]
      exact h.dir q
  · intro q id hq
    rw [entAt_mkdirL l p q hp0] at hq
    by_cases hqp : q = p
    · simp [hqp] at hq
    · simp only [hqp, if_false] at hq
      rw [inc_push, hlc]
      exact h.cont q id hq
  · intro q hq
    rw [fileExists_push] at hq
    rw [inc_push]
    exact h.ghost q hq
  · intro q1 q2 id h1 h2
    rw [entAt_mkdirL l p _ hp0] at h1 h2
    by_cases e1 : q1 = p
    · simp [e1] at h1
    · by_cases e2 : q2 = p
      · simp [e2] at h2
      · simp only [e1, e2, if_false] at h1 h2
        exact h.inj q1 q2 id h1 h2
  · intro q id hq
    rw [entAt_mkdirL l p q hp0] at hq
    show id < l.next + 1
    by_cases e1 : q = p
    · simp [e1] at hq
    · simp only [e1, if_false] at hq
      have := h.fresh q id hq
      omega

/-- a sync that preserves every view keeps the relation -/
theorem FsRel.sync {fs fs' : Fs} {l : Live} {q : Path} (h : FsRel fs l) (hs : SyncFileOut fs fs' q) :
    FsRel fs' l :=
  { noRN := hs.noRN, mono := hs.mono
    file := fun p => by rw [hs.file]; exact h.file p
    dir := fun p => by rw [hs.dir]; exact h.dir p
    cont := fun p id hp => by rw [hs.inc]; exact h.cont p id hp
    ghost := fun p hp => by rw [hs.inc]; rw [hs.file] at hp; exact h.ghost p hp
    inj := h.inj, fresh := h.fresh }

end TV.Fs
