/-
  The simulation for the model of the committed code (`stepFx Fixes.committed`) on the wider fragment
  `fragOkC`: with the repairs of F-C10-1 (read order) and F-C10-9 (create over a directory) the relation
  no longer needs the "no shrinking `SetLen` in the log" invariant, so shrinking `set_len`, truncating
  opens of non-empty files, `fs::write` over non-empty files and opens / writes that meet a directory are
  all covered.
-/
import TvFs.Proofs.Committed

namespace TV.Fs

theorem RX_init : RX St.init Live.init := R_init.toX

/-! ### reads and data ops -/

theorem contentFx_of {fs : Fs} {l : Live} (h : FsRelX fs l) {p : Path} {id : Nat}
    (hp : entAt l p = some (.file id)) : contentFx fxc fs p = liveContent l id := by
  rw [contentFx_eq_inc' fxc rfl fs h.noRN p]; exact h.cont p id hp

theorem fileLen_ofX {fs : Fs} {l : Live} (h : FsRelX fs l) {p : Path} {id : Nat}
    (hp : entAt l p = some (.file id)) : fileLen fs p = (liveContent l id).length := by
  rw [fileLen_eq_inc fs h.noRN p, h.cont p id hp]

theorem readSliceFx_of {fs : Fs} {l : Live} (h : FsRelX fs l) {p : Path} {id : Nat}
    (hp : entAt l p = some (.file id)) (off n : Nat) :
    readSliceFx fxc fs p off n = ((liveContent l id).drop off).take n := by
  unfold readSliceFx; rw [contentFx_of h hp]

theorem FsRelX.write {fs : Fs} {l : Live} (h : FsRelX fs l) {p : Path} {id : Nat}
    (hp : entAt l p = some (.file id)) (off : Nat) (d : Bytes) :
    FsRelX (writeFs fs p off d false) (sWrite l id off d) := by
  rw [writeFs_nocoin]
  unfold sWrite
  by_cases hd : d.isEmpty = true
  · simp only [hd, if_true]; exact h
  · simp only [hd]
    have := h.dataop p id (.write p off d) hp (by simp [isDataOpOf])
    simpa [incStep] using this

/-- `set_len`, growing or shrinking -/
theorem FsRelX.setLen {fs : Fs} {l : Live} (h : FsRelX fs l) {p : Path} {id : Nat}
    (hp : entAt l p = some (.file id)) (n : Nat) :
    FsRelX (setLenFs fs p n false) (sSetLen l id n) := by
  rw [setLenFs_nocoin]
  unfold sSetLen
  have := h.dataop p id (.setLen p n) hp (by simp [isDataOpOf])
  simpa [incStep] using this

/-! ### open (all flag combinations, every kind of entry at the path) -/

theorem openFsFx_dir {fs : Fs} {l : Live} (h : FsRelX fs l) (p : Path) (fl : Flags) {id : Nat}
    (hent : entAt l p = some (.dir id)) :
    openFsFx fxc fs p fl =
      .error (if fl.n then .alreadyexists else if fl.c then .isdir else .notfound) := by
  have hfe : fileExists fs p = false := by simp [h.file, isFileAt, hent]
  have hd : dirExists fs p = true := by simp [h.dir, isDirAt, hent]
  unfold openFsFx openCreateFx
  rw [fileExistsFx_c, dirExistsFx_c, hfe, hd]
  cases hn : fl.n <;> cases hc : fl.c <;> rfl

theorem openFsFx_nodir {fs : Fs} {l : Live} (h : FsRelX fs l) (p : Path) (fl : Flags)
    (hent : ∀ id, entAt l p ≠ some (.dir id)) : openFsFx fxc fs p fl = openFs fs p fl := by
  apply openFsFx_c h.noRN
  have : dirExists fs p = false := by
    rw [h.dir]; unfold isDirAt
    cases he : entAt l p with
    | none => rfl
    | some en => cases en with
      | file _ => rfl
      | dir id => exact absurd he (hent id)
  rw [this]; simp

theorem open_errX {fs : Fs} {l : Live} (h : FsRelX fs l) (p : Path) (fl : Flags)
    (e : Err) (he : openFsFx fxc fs p fl = .error e) : sOpen l p fl = .error e := by
  unfold sOpen
  cases hent : entAt l p with
  | none =>
    rw [openFsFx_nodir h p fl (by intro id; rw [hent]; exact fun x => nomatch x)] at he
    unfold openFs at he
    have hfe : fileExists fs p = false := by rw [h.file, isFileAt_of_none hent]
    simp only [openCreate, hfe, Bool.false_eq_true, if_false, parentExists_eqX h] at he
    by_cases hc : (fl.c || fl.n) = true
    · simp only [hc, if_true] at he ⊢
      by_cases hpar : (!sParentIsDir l p) = true
      · simp only [hpar, if_true] at he ⊢
        cases he; rfl
      · simp only [hpar] at he
        cases he
    · simp only [hc] at he ⊢
      cases he; rfl
  | some en =>
    cases en with
    | file id =>
      rw [openFsFx_nodir h p fl (by intro id'; rw [hent]; exact fun x => nomatch x)] at he
      unfold openFs at he
      have hfe : fileExists fs p = true := by rw [h.file, isFileAt_of_ent hent]
      simp only [openCreate, hfe, if_true] at he
      by_cases hn : fl.n = true
      · simp only [hn, if_true] at he ⊢
        cases he; rfl
      · simp only [hn] at he
        cases he
    | dir id =>
      rw [openFsFx_dir h p fl hent] at he
      cases he
      cases hn : fl.n <;> cases hc : fl.c <;> rfl

structure OpenOkX (fs' : Fs) (l l' : Live) (p : Path) (id : Nat) : Prop where
  rel : FsRelX fs' l'
  ent : entAt l' p = some (.file id)
  handles : l'.handles = l.handles
  keep : ∀ q j, entAt l q = some (.file j) → entAt l' q = some (.file j)

theorem open_okX {fs : Fs} {l : Live} (h : FsRelX fs l) (p : Path) (fl : Flags)
    (fs' : Fs) (he : openFsFx fxc fs p fl = .ok fs') :
    ∃ l' id, sOpen l p fl = .ok (l', id) ∧ OpenOkX fs' l l' p id := by
  unfold sOpen
  cases hent : entAt l p with
  | none =>
    rw [openFsFx_nodir h p fl (by intro id; rw [hent]; exact fun x => nomatch x)] at he
    unfold openFs at he
    have hp0 := ne_root_of_entAt_none hent
    have hfe : fileExists fs p = false := by rw [h.file, isFileAt_of_none hent]
    cases hc : (fl.c || fl.n) with
    | false => simp [openCreate, hfe, hc] at he
    | true =>
      cases hpar : sParentIsDir l p with
      | false => simp [openCreate, hfe, hc, parentExists_eqX h, hpar] at he
      | true =>
        have hcr := h.create p hent
        have hentc : entAt (createL l p) p = some (.file l.next) := by rw [entAt_createL l p p hp0]; simp
        have hkeep : ∀ q j, entAt l q = some (.file j) → entAt (createL l p) q = some (.file j) := by
          intro q j hq
          rw [entAt_createL l p q hp0]
          have : q ≠ p := by intro e; subst e; rw [hent] at hq; cases hq
          simp [this, hq]
        refine ⟨createL l p, l.next, by simp; rfl, ?_⟩
        cases htw : (fl.t && fl.w) with
        | true =>
          have he' : fs' = push (push fs (.createFile p)) (.setLen p 0) := by
            simp [openCreate, hfe, hc, parentExists_eqX h, hpar, htw] at he
            rw [← he]; simp [push]
          subst he'
          have := hcr.dataop p l.next (.setLen p 0) hentc (by simp [isDataOpOf])
          have hl : setLive (createL l p) l.next (incStep p (liveContent (createL l p) l.next) (.setLen p 0)) =
              createL l p := by
            have e0 : liveContent (createL l p) l.next = [] := by rw [liveContent_createL]; simp
            simp only [incStep, beq_self_eq_true, if_true, e0]
            exact setLive_eq_self _ _ _ (by rw [e0]; rfl)
          rw [hl] at this
          exact ⟨this, hentc, rfl, hkeep⟩
        | false =>
          have he' : fs' = push fs (.createFile p) := by
            simp [openCreate, hfe, hc, parentExists_eqX h, hpar, htw] at he
            rw [← he]; rfl
          subst he'
          exact ⟨hcr, hentc, rfl, hkeep⟩
  | some en =>
    cases en with
    | file id =>
      rw [openFsFx_nodir h p fl (by intro id'; rw [hent]; exact fun x => nomatch x)] at he
      unfold openFs at he
      have hfe : fileExists fs p = true := by rw [h.file, isFileAt_of_ent hent]
      cases hn : fl.n with
      | true => simp [openCreate, hfe, hn] at he
      | false =>
        cases htw : (fl.t && fl.w) with
        | true =>
          have he' : fs' = push fs (.setLen p 0) := by
            simp [openCreate, hfe, hn, htw] at he
            rw [← he]; rfl
          subst he'
          refine ⟨setLive l id [], id, by simp, ?_⟩
          -- the truncation may shrink: no condition on the old content
          have := h.dataop p id (.setLen p 0) hent (by simp [isDataOpOf])
          have e1 : incStep p (liveContent l id) (.setLen p 0) = [] := by
            simp [incStep, resize]
          rw [e1] at this
          exact ⟨this, by rw [entAt_congr (setLive_ents l id [])]; exact hent, rfl,
                 fun q j hq => by rw [entAt_congr (setLive_ents l id [])]; exact hq⟩
        | false =>
          have he' : fs' = fs := by
            simp [openCreate, hfe, hn, htw] at he
            exact he.symm
          subst he'
          exact ⟨l, id, by simp, h, hent, rfl, fun _ _ hq => hq⟩
    | dir id =>
      rw [openFsFx_dir h p fl hent] at he
      cases he

/-! ### the step -/

theorem RX.slot {st : St} {l : Live} (hR : RX st l) (i : Nat) :
    (getSlot st i = none ∧ sGetSlot l i = none) ∨
    ∃ hd sh, getSlot st i = some hd ∧ sGetSlot l i = some sh ∧ HandRel l hd sh := hR.slots.get i

/-- the tree changed only in `live` (ents, handles, next untouched) -/
theorem RX.of_fs {st : St} {l l' : Live} {fs' : Fs} (hR : RX st l) (hfs : FsRelX fs' l')
    (he : l'.ents = l.ents) (hh : l'.handles = l.handles) : RX { st with fs := fs' } l' :=
  ⟨hfs, hR.slots.mono hh (fun q id hq => by rw [entAt_congr he]; exact hq)⟩

theorem RX.set_handle {st : St} {l : Live} (hR : RX st l) (i : Nat) (hd : Handle) (sh : SHandle)
    (hr : HandRel l hd sh) : RX (setSlot st i hd) (sSetSlot l i sh) := by
  refine ⟨hR.fs.congr rfl rfl rfl, ?_⟩
  exact hR.slots.set i _ _ hr

theorem seek_auxX {st : St} {l : Live} (hR : RX st l) (slot : Nat) (hd : Handle) (sh : SHandle)
    (hr : HandRel l hd sh) (np : Int) :
    (if np < 0 then (st, Obs.err Err.invalidinput)
      else (setSlot st slot { hd with cursor := np.toNat }, Obs.okN np.toNat)).2 =
    (if np < 0 then (l, Obs.err Err.invalidinput)
      else (sSetSlot l slot { sh with cursor := np.toNat }, Obs.okN np.toNat)).2 ∧
    RX (if np < 0 then (st, Obs.err Err.invalidinput)
      else (setSlot st slot { hd with cursor := np.toNat }, Obs.okN np.toNat)).1
      (if np < 0 then (l, Obs.err Err.invalidinput)
      else (sSetSlot l slot { sh with cursor := np.toNat }, Obs.okN np.toNat)).1 := by
  by_cases h : np < 0
  · simp only [h, if_true]; exact ⟨trivial, hR⟩
  · simp only [h, if_false]
    exact ⟨trivial, hR.set_handle slot _ _ ⟨hr.r, hr.w, hr.a, rfl, hr.ent⟩⟩

theorem view_eqX {fs : Fs} {l : Live} (h : FsRelX fs l) (p : Path) : viewOfFx fxc fs p = sView l p := by
  unfold viewOfFx sView
  rw [fileExistsFx_c, dirExistsFx_c, dirEntryNamesFx_c]
  cases hent : entAt l p with
  | none =>
    simp only [h.file, h.dir, isFileAt_of_none hent, isDirAt_of_none hent, Bool.false_eq_true, if_false]
  | some en =>
    cases en with
    | file id =>
      simp only [h.file, isFileAt_of_ent hent, if_true, fileLen_ofX h hent, contentFx_of h hent]
    | dir id =>
      have h1 : isFileAt l p = false := by simp [isFileAt, hent]
      have h2 : isDirAt l p = true := by simp [isDirAt, hent]
      simp only [h.file, h.dir, h1, h2, Bool.false_eq_true, if_false, if_true, listing_eq' h.noRN h.file h.dir p]

/-- one call of the fragment on the model of the committed code: same observation as the POSIX tree,
    relation re-established -/
theorem sim_stepX {st : St} {l : Live} (hR : RX st l) (op : Op) (hf : fragOkC op = true) :
    (stepFx fxc {} st op {}).2 = (lStep l op).2 ∧ RX (stepFx fxc {} st op {}).1 (lStep l op).1 := by
  have hn := hR.fs.noRN
  cases op with
  | «open» slot p fl =>
    have h0 : FsRelX (dropSlot st slot).fs (sDropSlot l slot) := hR.fs.congr rfl rfl rfl
    have hs0 : SlotRel (dropSlot st slot).slots (sDropSlot l slot) := hR.slots.drop slot
    simp only [stepFx, lStep]
    cases hres : openFsFx fxc (dropSlot st slot).fs p fl with
    | error e =>
      have hse := open_errX h0 p fl e hres
      simp only [hse]
      exact ⟨by first | rfl | trivial, h0, hs0⟩
    | ok fs' =>
      obtain ⟨l', id, hso, hok⟩ := open_okX h0 p fl fs' hres
      simp only [hso]
      refine ⟨by first | rfl | trivial, ?_, ?_⟩
      · exact hok.rel.congr rfl rfl rfl
      · have hm : SlotRel (dropSlot st slot).slots l' := hs0.mono hok.handles hok.keep
        exact hm.set slot _ _ ⟨by first | rfl | trivial, rfl, rfl, rfl, hok.ent⟩
  | close slot =>
    simp only [stepFx, lStep]
    rcases hR.slot slot with ⟨h1, h2⟩ | ⟨hd, sh, h1, h2, _⟩
    · simp only [h1, h2]; exact ⟨by first | rfl | trivial, hR⟩
    · simp only [h1, h2]
      exact ⟨by first | rfl | trivial, hR.fs.congr rfl rfl rfl, hR.slots.drop slot⟩
  | writeAt slot off d =>
    simp only [stepFx, lStep]
    rcases hR.slot slot with ⟨h1, h2⟩ | ⟨hd, sh, h1, h2, hr⟩
    · simp only [h1, h2]; exact ⟨by first | rfl | trivial, hR⟩
    · simp only [h1, h2, hr.w]
      cases hw : sh.writable with
      | false => exact ⟨by first | rfl | trivial, hR⟩
      | true =>
        refine ⟨by first | rfl | trivial, ?_⟩
        simp only [writeFsFx_c hn]
        exact hR.of_fs (hR.fs.write hr.ent off d) (sWrite_ents _ _ _ _) (sWrite_handles _ _ _ _)
  | readAt slot off len =>
    simp only [stepFx, lStep]
    rcases hR.slot slot with ⟨h1, h2⟩ | ⟨hd, sh, h1, h2, hr⟩
    · simp only [h1, h2]; exact ⟨by first | rfl | trivial, hR⟩
    · simp only [h1, h2, hr.r]
      cases hrd : sh.readable with
      | false => exact ⟨by first | rfl | trivial, hR⟩
      | true =>
        refine ⟨?_, hR⟩
        simp only [Bool.not_true, Bool.false_eq_true, if_false]
        rw [readSliceFx_of hR.fs hr.ent]
  | write slot d =>
    simp only [stepFx, lStep]
    rcases hR.slot slot with ⟨h1, h2⟩ | ⟨hd, sh, h1, h2, hr⟩
    · simp only [h1, h2]; exact ⟨by first | rfl | trivial, hR⟩
    · simp only [h1, h2, hr.w]
      cases hw : sh.writable with
      | false => exact ⟨by first | rfl | trivial, hR⟩
      | true =>
        simp only [Bool.not_true, Bool.false_eq_true, if_false]
        refine ⟨by first | rfl | trivial, ?_⟩
        have hoff : (if hd.append = true then fileLen st.fs hd.path else hd.cursor) =
            (if sh.append = true then (liveContent l sh.fid).length else sh.cursor) := by
          rw [hr.a, hr.cur, fileLen_ofX hR.fs hr.ent]
        rw [hoff]
        simp only [writeFsFx_c hn]
        have hR1 := hR.of_fs (hR.fs.write hr.ent (if sh.append = true then (liveContent l sh.fid).length else sh.cursor) d)
          (sWrite_ents _ _ _ _) (sWrite_handles _ _ _ _)
        apply hR1.set_handle slot
        exact ⟨by first | rfl | exact hr.r, by first | rfl | exact hr.w, by first | rfl | exact hr.a, rfl,
          by rw [entAt_congr (sWrite_ents _ _ _ _)]; exact hr.ent⟩
  | read slot len =>
    simp only [stepFx, lStep]
    rcases hR.slot slot with ⟨h1, h2⟩ | ⟨hd, sh, h1, h2, hr⟩
    · simp only [h1, h2]; exact ⟨by first | rfl | trivial, hR⟩
    · simp only [h1, h2, hr.r]
      cases hrd : sh.readable with
      | false => exact ⟨by first | rfl | trivial, hR⟩
      | true =>
        simp only [Bool.not_true, Bool.false_eq_true, if_false]
        rw [readSliceFx_of hR.fs hr.ent, hr.cur]
        refine ⟨by first | rfl | trivial, ?_⟩
        apply hR.set_handle slot
        exact ⟨by first | rfl | exact hr.r, by first | rfl | exact hr.w, by first | rfl | exact hr.a, rfl, hr.ent⟩
  | seek slot whence off =>
    simp only [stepFx, lStep]
    rcases hR.slot slot with ⟨h1, h2⟩ | ⟨hd, sh, h1, h2, hr⟩
    · simp only [h1, h2]; exact ⟨by first | rfl | trivial, hR⟩
    · simp only [h1, h2]
      rw [fileLen_ofX hR.fs hr.ent, hr.cur]
      exact seek_auxX hR slot hd sh hr _
  | setLen slot n =>
    simp only [stepFx, lStep]
    rcases hR.slot slot with ⟨h1, h2⟩ | ⟨hd, sh, h1, h2, hr⟩
    · simp only [h1, h2]; exact ⟨by first | rfl | trivial, hR⟩
    · simp only [h1, h2, hr.w]
      cases hw : sh.writable with
      | false => exact ⟨by first | rfl | trivial, hR⟩
      | true =>
        refine ⟨by first | rfl | trivial, ?_⟩
        simp only [setLenFsFx_c hn]
        exact hR.of_fs (hR.fs.setLen hr.ent n) rfl rfl
  | syncAll slot =>
    simp only [stepFx, lStep]
    rcases hR.slot slot with ⟨h1, h2⟩ | ⟨hd, sh, h1, h2, hr⟩
    · simp only [h1, h2]; exact ⟨by first | rfl | trivial, hR⟩
    · simp only [h1, h2]
      have hex : fileExists st.fs hd.path = true := by rw [hR.fs.file, isFileAt_of_ent hr.ent]
      rw [syncFileFx_c hn]
      cases hs : syncFile st.fs hd.path with
      | error e => simp [syncFile, hex] at hs
      | ok fs' =>
        refine ⟨by first | rfl | trivial, ?_⟩
        exact hR.of_fs (hR.fs.sync (syncFile_viewsX hn hs).1) rfl rfl
  | syncData slot =>
    simp only [stepFx, lStep]
    rcases hR.slot slot with ⟨h1, h2⟩ | ⟨hd, sh, h1, h2, hr⟩
    · simp only [h1, h2]; exact ⟨by first | rfl | trivial, hR⟩
    · simp only [h1, h2]
      have hex : fileExists st.fs hd.path = true := by rw [hR.fs.file, isFileAt_of_ent hr.ent]
      rw [syncFileFx_c hn]
      cases hs : syncFile st.fs hd.path with
      | error e => simp [syncFile, hex] at hs
      | ok fs' =>
        refine ⟨by first | rfl | trivial, ?_⟩
        exact hR.of_fs (hR.fs.sync (syncFile_viewsX hn hs).1) rfl rfl
  | hmeta slot =>
    simp only [stepFx, lStep]
    rcases hR.slot slot with ⟨h1, h2⟩ | ⟨hd, sh, h1, h2, hr⟩
    · simp only [h1, h2]; exact ⟨by first | rfl | trivial, hR⟩
    · simp only [h1, h2]
      rw [fileLen_ofX hR.fs hr.ent]
      exact ⟨by first | rfl | trivial, hR⟩
  | mkdir p =>
    simp only [stepFx, lStep]
    rw [mkdirFx_c]
    unfold Fs.mkdir sMkdir
    rw [parentExists_eqX hR.fs]
    cases hpar : sParentIsDir l p with
    | false => exact ⟨by first | rfl | trivial, hR⟩
    | true =>
      simp only [Bool.not_true, Bool.false_eq_true, if_false]
      cases hent : entAt l p with
      | some en =>
        have hex : (dirExists st.fs p || fileExists st.fs p) = true := by
          rw [hR.fs.dir, hR.fs.file]
          cases en <;> simp [isDirAt, isFileAt, hent]
        simp only [hex, if_true, Option.isSome_some]
        exact ⟨by first | rfl | trivial, hR⟩
      | none =>
        have hex : (dirExists st.fs p || fileExists st.fs p) = false := by
          rw [hR.fs.dir, hR.fs.file, isDirAt_of_none hent, isFileAt_of_none hent]; rfl
        simp only [hex, Bool.false_eq_true, if_false, Option.isSome_none]
        refine ⟨by first | rfl | trivial, ?_⟩
        have hfs := hR.fs.mkdir p hent
        have hp0 := ne_root_of_entAt_none hent
        refine ⟨hfs, ?_⟩
        show SlotRel st.slots (mkdirL l p)
        apply hR.slots.mono (l' := mkdirL l p) rfl
        intro q id hq
        rw [entAt_mkdirL l p q hp0]
        have : q ≠ p := by intro e; subst e; rw [hent] at hq; cases hq
        simp [this, hq]
  | syncDir p =>
    simp only [stepFx, lStep]
    cases hd : isDirAt l p with
    | false =>
      have : dirExists st.fs p = false := by rw [hR.fs.dir, hd]
      simp [syncDirFx_c hn, syncDir, this, ofExcept]
      exact hR
    | true =>
      have hde : dirExists st.fs p = true := by rw [hR.fs.dir, hd]
      rw [syncDirFx_c hn]
      cases hs : syncDir st.fs p with
      | error e => simp [syncDir, hde] at hs
      | ok fs' =>
        simp only [if_true]
        refine ⟨by first | rfl | trivial, ?_⟩
        exact hR.of_fs (hR.fs.sync (syncDir_viewsX hn hs).1) rfl rfl
  | stat p =>
    simp only [stepFx, lStep, fileExistsFx_c, dirExistsFx_c]
    cases hent : entAt l p with
    | none =>
      simp only [hR.fs.file, hR.fs.dir, isFileAt_of_none hent, isDirAt_of_none hent]
      exact ⟨by first | rfl | trivial, hR⟩
    | some en =>
      cases en with
      | file id =>
        simp only [hR.fs.file, isFileAt_of_ent hent, if_true, fileLen_ofX hR.fs hent]
        exact ⟨by first | rfl | trivial, hR⟩
      | dir id =>
        have h1 : isFileAt l p = false := by simp [isFileAt, hent]
        have h2 : isDirAt l p = true := by simp [isDirAt, hent]
        simp only [hR.fs.file, hR.fs.dir, h1, h2]
        exact ⟨by first | rfl | trivial, hR⟩
  | «exists» p =>
    simp only [stepFx, lStep, fileExistsFx_c, dirExistsFx_c]
    refine ⟨?_, hR⟩
    rw [hR.fs.file, hR.fs.dir]
    cases hent : entAt l p with
    | none => simp [isFileAt, isDirAt, hent]
    | some en => cases en <;> simp [isFileAt, isDirAt, hent]
  | readFile p =>
    simp only [stepFx, lStep, fileExistsFx_c]
    cases hent : entAt l p with
    | none =>
      simp only [hR.fs.file, isFileAt_of_none hent]
      exact ⟨by first | rfl | trivial, hR⟩
    | some en =>
      cases en with
      | file id =>
        simp only [hR.fs.file, isFileAt_of_ent hent, if_true, contentFx_of hR.fs hent]
        exact ⟨by first | rfl | trivial, hR⟩
      | dir id =>
        have h1 : isFileAt l p = false := by simp [isFileAt, hent]
        simp only [hR.fs.file, h1]
        exact ⟨by first | rfl | trivial, hR⟩
  | writeFile p d =>
    simp only [stepFx, lStep]
    cases hres : openFsFx fxc st.fs p { w := true, c := true, t := true } with
    | error e =>
      have hse := open_errX hR.fs p { w := true, c := true, t := true } e hres
      simp only [hse]
      exact ⟨by first | rfl | trivial, hR⟩
    | ok fs' =>
      obtain ⟨l', id, hso, hok⟩ := open_okX hR.fs p { w := true, c := true, t := true } fs' hres
      simp only [hso]
      refine ⟨by first | rfl | trivial, ?_⟩
      simp only [writeFsFx_c hok.rel.noRN]
      refine ⟨hok.rel.write hok.ent 0 d, ?_⟩
      apply hR.slots.mono
      · rw [sWrite_handles]; exact hok.handles
      · intro q j hq
        rw [entAt_congr (sWrite_ents _ _ _ _)]
        exact hok.keep q j hq
  | mkdirAll p => simp [fragOkC] at hf
  | rmdir p => simp [fragOkC] at hf
  | rmdirAll p => simp [fragOkC] at hf
  | unlink p => simp [fragOkC] at hf
  | rename p q => simp [fragOkC] at hf
  | readDir p =>
    simp only [stepFx, lStep]
    have e1 : dirExistsFx fxc st.fs p = isDirAt l p := by rw [dirExistsFx_c]; exact hR.fs.dir p
    have e2 : dirEntryNamesFx fxc st.fs p = sChildNames l p := by
      rw [dirEntryNamesFx_c]; exact listing_eq' hR.fs.noRN hR.fs.file hR.fs.dir p
    simp only [e1, e2]
    split
    · exact ⟨rfl, hR⟩
    · exact ⟨rfl, hR⟩
  | dump pool =>
    simp only [stepFx, lStep]
    refine ⟨?_, hR⟩
    congr 1
    apply List.map_congr_left
    intro p _
    rw [view_eqX hR.fs p]
  | crash => simp [fragOkC] at hf


/-! ### whole histories -/

theorem runFx_eq_lRun : ∀ (h : List Op) (st : St) (l : Live), RX st l → fragRunC h = true →
    runFx fxc {} st (quiet h) = lRun l h := by
  intro h
  induction h with
  | nil => intro st l _ _; rfl
  | cons op r ih =>
    intro st l hR hf
    simp only [fragRunC, List.all_cons, Bool.and_eq_true] at hf
    obtain ⟨ho, hRn⟩ := sim_stepX hR op hf.1
    simp only [quiet, List.map_cons, runFx, lRun]
    rw [ho]
    congr 1
    exact ih _ _ hRn (by simpa [fragRunC] using hf.2)

end TV.Fs
