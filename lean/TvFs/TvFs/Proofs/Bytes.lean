/-
  Byte-vector lemmas: `resize`, `writeAt`, `overlayClip` are all of the form `(List.range n).map f`,
  so equalities reduce to a length and a pointwise statement.
-/
import TvFs.Model.Fs

namespace TV.Fs

theorem length_resize (c : Bytes) (n : Nat) : (resize c n).length = n := by simp [resize]

theorem length_writeAt (c : Bytes) (off : Nat) (d : Bytes) :
    (writeAt c off d).length = max c.length (off + d.length) := by simp [writeAt]

theorem length_overlayClip (b : Bytes) (off : Nat) (d : Bytes) : (overlayClip b off d).length = b.length := by
  simp [overlayClip]

theorem getD_of_ge (l : Bytes) (i : Nat) (h : l.length ≤ i) : l.getD i 0 = 0 := by
  rw [List.getD_eq_getElem?_getD, List.getElem?_eq_none h]; rfl

theorem getD_range_map (n : Nat) (f : Nat → Nat) (i : Nat) :
    ((List.range n).map f).getD i 0 = if i < n then f i else 0 := by
  rw [List.getD_eq_getElem?_getD]
  by_cases h : i < n
  · simp [h]
  · simp [h]

theorem range_map_congr (n : Nat) (f g : Nat → Nat) (h : ∀ i, i < n → f i = g i) :
    (List.range n).map f = (List.range n).map g := by
  apply List.map_congr_left
  intro i hi
  exact h i (List.mem_range.mp hi)

theorem getD_resize (c : Bytes) (n i : Nat) : (resize c n).getD i 0 = if i < n then c.getD i 0 else 0 := by
  unfold resize; exact getD_range_map n _ i

/-- the zero default of `getD` makes the formula unconditional -/
theorem getD_writeAt (c : Bytes) (off : Nat) (d : Bytes) (i : Nat) :
    (writeAt c off d).getD i 0 = if off ≤ i ∧ i < off + d.length then d.getD (i - off) 0 else c.getD i 0 := by
  unfold writeAt
  rw [getD_range_map]
  by_cases h : i < max c.length (off + d.length)
  · simp only [h, if_true]
  · simp only [h, if_false]
    have h1 : c.length ≤ i := by omega
    have h2 : ¬ (off ≤ i ∧ i < off + d.length) := by omega
    simp only [h2, if_false]
    exact (getD_of_ge c i h1).symm

theorem list_eq_range_map (l : Bytes) : l = (List.range l.length).map fun i => l.getD i 0 := by
  apply List.ext_getElem
  · simp
  · intro i h1 h2
    simp [List.getD_eq_getElem?_getD, List.getElem?_eq_getElem h1]

theorem resize_self (c : Bytes) : resize c c.length = c := by
  unfold resize; exact (list_eq_range_map c).symm

theorem overlayClip_replicate (n : Nat) (c : Bytes) : overlayClip (List.replicate n 0) 0 c = resize c n := by
  unfold overlayClip resize
  simp only [List.length_replicate]
  apply range_map_congr
  intro i hi
  by_cases h : i < c.length
  · simp [h]
  · have h1 : c.length ≤ i := by omega
    have : ¬ (0 ≤ i ∧ i < 0 + c.length) := by omega
    simp only [this, if_false]
    rw [getD_of_ge c i h1]
    rw [List.getD_eq_getElem?_getD]
    simp [hi]

theorem overlay_resize_write (c : Bytes) (L off : Nat) (d : Bytes) :
    overlayClip (resize c L) off d = resize (writeAt c off d) L := by
  unfold overlayClip
  rw [length_resize]
  show _ = (List.range L).map fun i => (writeAt c off d).getD i 0
  apply range_map_congr
  intro i hi
  rw [getD_writeAt, getD_resize]
  simp [hi]

theorem resize_resize_of_le (c : Bytes) (n L : Nat) (h : c.length ≤ n) :
    resize (resize c n) L = resize c L := by
  show ((List.range L).map fun i => (resize c n).getD i 0) = (List.range L).map fun i => c.getD i 0
  apply range_map_congr
  intro i _
  rw [getD_resize]
  by_cases h1 : i < n
  · simp [h1]
  · simp only [h1, if_false]
    exact (getD_of_ge c i (by omega)).symm

theorem resize_nil_zero : resize [] 0 = [] := rfl

theorem writeAt_nil_left_zero (d : Bytes) : writeAt [] 0 d = d := by
  have : d = (List.range d.length).map fun i => d.getD i 0 := list_eq_range_map d
  unfold writeAt
  conv => rhs; rw [this]
  simp only [List.length_nil, Nat.zero_add, Nat.zero_le, true_and, Nat.sub_zero, Nat.zero_max]
  apply range_map_congr
  intro i hi
  simp [hi]

end TV.Fs
