/-
  Durable refinement on the flat fragment (files directly under the root): the relation between
  (persisted files, synced_entries) and the spec's durable image (dents, dur), its preservation by
  every fragment op, and the post-crash correspondence.
-/
import TvFs.Proofs.Partial

namespace TV.Fs

/-! ### implementation side: what the syncs do to `files` and `synced` -/

theorem applyOp_synced (t : Fs) (o : POp) : (applyOp t o).synced = t.synced := by
  cases o <;> simp only [applyOp] <;> (repeat' split) <;> rfl

theorem foldl_applyOp_synced : ∀ (ops : List POp) (t : Fs), (ops.foldl applyOp t).synced = t.synced := by
  intro ops
  induction ops with
  | nil => intro t; rfl
  | cons o r ih => intro t; simp only [List.foldl_cons]; rw [ih, applyOp_synced]

theorem foldl_neutral (p : Path) : ∀ (l : List POp) (c : Bytes), (∀ o ∈ l, neutralFor p o = true) →
    l.foldl (incStep p) c = c := by
  intro l
  induction l with
  | nil => intro c _; rfl
  | cons o r ih =>
    intro c h
    simp only [List.foldl_cons]
    rw [incStep_neutral (h o List.mem_cons_self)]
    exact ih c fun x hx => h x (List.mem_cons_of_mem _ hx)

structure SyncFilePersist (s s' : Fs) (q : Path) : Prop where
  synced : s'.synced = s.synced
  dirs : s'.dirs = s.dirs
  pending : s'.pending = s.pending.filter fun op => !(isDataOpOf q op)
  atq : alookup q s'.files = some (inc s q)
  other : ∀ p, p ≠ q → alookup p s'.files = alookup p s.files

theorem syncFile_persist {s s' : Fs} {q : Path} (hs : syncFile s q = .ok s') : SyncFilePersist s s' q := by
  unfold syncFile at hs
  split at hs
  · cases hs
  · simp only [Except.ok.injEq] at hs
    let c0 : Bytes := (alookup q s.files).getD []
    let s1 : Fs := if (alookup q s.files).isSome then s else { s with files := s.files ++ [(q, [])] }
    have hs1q : alookup q s1.files = some c0 := by
      show alookup q (if (alookup q s.files).isSome then s else { s with files := s.files ++ [(q, [])] }).files = _
      cases hl : alookup q s.files with
      | some x => simp [hl, c0]
      | none => simp [hl, c0, alookup_append, alookup]
    have hs1p : ∀ p, p ≠ q → alookup p s1.files = alookup p s.files := by
      intro p hp
      show alookup p (if (alookup q s.files).isSome then s else { s with files := s.files ++ [(q, [])] }).files = _
      split
      · rfl
      · simp only [alookup_append]
        cases alookup p s.files with
        | some x => rfl
        | none => simp [alookup, Ne.symm hp]
    have hs1d : s1.dirs = s.dirs := by
      show (if (alookup q s.files).isSome then s else { s with files := s.files ++ [(q, [])] }).dirs = _
      split <;> rfl
    have hs1s : s1.synced = s.synced := by
      show (if (alookup q s.files).isSome then s else { s with files := s.files ++ [(q, [])] }).synced = _
      split <;> rfl
    let keep := s.pending.filter fun op => !(isDataOpOf q op)
    let flush := s.pending.filter (isDataOpOf q)
    have hfl : ∀ o ∈ flush, isDataOpOf q o = true := fun o ho => (List.mem_filter.mp ho).2
    obtain ⟨e1, e2, e3, e4⟩ := foldl_applyOp_dataops q flush { s1 with pending := keep } c0 hfl hs1q
    refine ⟨?_, ?_, ?_, ?_, ?_⟩
    · rw [← hs, foldl_applyOp_synced]; exact hs1s
    · rw [← hs]; exact e2.trans hs1d
    · rw [← hs]; exact e1
    · rw [← hs, e3]
      congr 1
      exact foldl_inc_filter q (isDataOpOf q) s.pending c0 (fun o _ hf => not_isDataOpOf_neutral hf)
    · intro p hp; rw [← hs]; exact (e4 p hp).trans (hs1p p hp)

def isCreateFile : POp → Bool
  | .createFile _ => true
  | _ => false

theorem syncDirStep_createFile_synced (d : Path) (t : Fs) (a : Path) (p : Path) :
    (syncDirStep d t (.createFile a)).synced.contains p =
      (t.synced.contains p || (isChildOf a d && (a == p))) := by
  simp only [syncDirStep, applyOp_synced, syncedUpd]
  by_cases hc : isChildOf a d = true
  · simp only [hc, if_true, Bool.true_and]
    exact sinsert_contains a p t.synced
  · have : isChildOf a d = false := by simpa using hc
    simp [this]

theorem foldl_syncDirStep_synced (d : Path) (p : Path) : ∀ (ops : List POp) (t : Fs),
    (∀ o ∈ ops, isCreateFile o = true) → (∀ o ∈ ops, isDirOpOf d o = true) →
    (ops.foldl (syncDirStep d) t).synced.contains p = (t.synced.contains p || hasCreateFile ops p) := by
  intro ops
  induction ops with
  | nil => intro t _ _; simp [hasCreateFile]
  | cons o r ih =>
    intro t h1 h2
    simp only [List.foldl_cons]
    rw [ih _ (fun x hx => h1 x (List.mem_cons_of_mem _ hx)) (fun x hx => h2 x (List.mem_cons_of_mem _ hx))]
    have ho := h1 o List.mem_cons_self
    have hd := h2 o List.mem_cons_self
    cases o with
    | createFile a =>
      rw [syncDirStep_createFile_synced]
      have hc : isChildOf a d = true := by simpa [isDirOpOf] using hd
      simp only [hc, Bool.true_and, hasCreateFile, List.any_cons]
      by_cases hap : a = p
      · subst hap; simp
      · have e1 : (a == p) = false := by simpa using hap
        have e2 : (POp.createFile a == POp.createFile p) = false := by
          rw [beq_eq_false_iff_ne]; intro h; cases h; exact hap rfl
        simp [e1, e2]
    | createDir a => simp [isCreateFile] at ho
    | write a off dd => simp [isCreateFile] at ho
    | setLen a n => simp [isCreateFile] at ho
    | rename a b => simp [isCreateFile] at ho
    | removeFile a => simp [isCreateFile] at ho
    | removeDir a => simp [isCreateFile] at ho

/-! ### spec side: durable lookups -/

def dlookup (k : Nat × Nat) : List ((Nat × Nat) × Ent) → Option Ent
  | [] => none
  | (k', v) :: r => if k' = k then some v else dlookup k r

/-- every namespace entry is a file directly under the root -/
def Flat (l : Live) : Prop := ∀ p e, (p, e) ∈ l.ents → (∃ n, p = [n]) ∧ ∃ id, e = Ent.file id

theorem isChildOf_single_root (n : Nat) : isChildOf [n] [] = true := by
  simp [isChildOf, parent]

theorem elookup_flat_found (n : Nat) : ∀ (dents : List ((Nat × Nat) × Ent)),
    (∀ k e, (k, e) ∈ dents → k.1 = 0) →
    elookup [n] ((dents.filter fun kv => kv.1.1 == 0).map fun kv => (([] : Path) ++ [kv.1.2], kv.2)) =
      dlookup (0, n) dents := by
  intro dents
  induction dents with
  | nil => intro _; rfl
  | cons kv r ih =>
    intro hk
    obtain ⟨⟨a, b⟩, e⟩ := kv
    have ha : a = 0 := hk (a, b) e List.mem_cons_self
    subst ha
    have hr := ih (fun k e he => hk k e (List.mem_cons_of_mem _ he))
    simp only [List.filter_cons, beq_self_eq_true, if_true, List.map_cons, elookup, dlookup, List.nil_append]
    by_cases hb : b = n
    · subst hb; simp
    · have : ¬ ([b] : Path) = [n] := by simpa using hb
      have h2 : ¬ ((0, b) : Nat × Nat) = (0, n) := by simpa using hb
      simp only [this, h2, if_false]
      exact hr

theorem dlookup_kids (n : Nat) : ∀ (ents : List (Path × Ent)),
    (∀ p e, (p, e) ∈ ents → ∃ m, p = [m]) →
    dlookup (0, n) (ents.map fun kv => ((0, kv.1.getLastD 0), kv.2)) = elookup [n] ents := by
  intro ents
  induction ents with
  | nil => intro _; rfl
  | cons kv r ih =>
    intro hf
    obtain ⟨p, e⟩ := kv
    obtain ⟨m, hm⟩ := hf p e List.mem_cons_self
    subst hm
    have hr := ih (fun p e he => hf p e (List.mem_cons_of_mem _ he))
    have hl : ([m] : Path).getLastD 0 = m := rfl
    simp only [List.map_cons, dlookup, elookup, hl]
    by_cases hmn : m = n
    · subst hmn; simp
    · have : ¬ ([m] : Path) = [n] := by simpa using hmn
      have h2 : ¬ ((0, m) : Nat × Nat) = (0, n) := by simpa using hmn
      simp only [this, h2, if_false]
      exact hr

theorem dlookup_mem {k : Nat × Nat} {e : Ent} : ∀ {l : List ((Nat × Nat) × Ent)}, dlookup k l = some e → (k, e) ∈ l := by
  intro l
  induction l with
  | nil => intro h; simp [dlookup] at h
  | cons kv r ih =>
    obtain ⟨k', v⟩ := kv
    intro h
    by_cases hk : k' = k
    · subst hk; simp [dlookup] at h; subst h; exact List.mem_cons_self
    · simp [dlookup, hk] at h; exact List.mem_cons_of_mem _ (ih h)

end TV.Fs
