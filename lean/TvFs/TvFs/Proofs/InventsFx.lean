/-
  `never_invents` for the model with repair flags (any `Fixes`, in particular the committed code):
  the invariant `GoodFs` of `Proofs/Invents.lean` is preserved by every `stepFx`.
-/
import TvFs.Proofs.Invents
import TvFs.Model.Fixed

namespace TV.Fs

theorem syncFileFx_good {W : List Nat} (fx : Fixes) {s s' : Fs} (p : Path) (h : GoodFs W s)
    (hs : syncFileFx fx s p = .ok s') : GoodFs W s' := by
  unfold syncFileFx at hs
  split at hs
  · cases hs
  · split at hs
    · simp only [Except.ok.injEq] at hs
      subst hs
      apply foldl_applyOp_good
      · constructor
        · show FilesOk W (if (alookup (resolvePath s p) s.files).isSome then s
              else { s with files := s.files ++ [(resolvePath s p, [])] }).files
          split
          · exact h.1
          · exact append_empty_ok h.1 _
        · exact pendOk_filter h.2 _
      · exact pendOk_filter h.2 _
    · simp only [Except.ok.injEq] at hs
      subst hs
      apply foldl_applyOp_good
      · constructor
        · show FilesOk W (if (alookup p s.files).isSome then s else { s with files := s.files ++ [(p, [])] }).files
          split
          · exact h.1
          · exact append_empty_ok h.1 p
        · exact pendOk_filter h.2 _
      · exact pendOk_filter h.2 _

theorem syncDirStepFx_good {W : List Nat} (fx : Fixes) (path : Path) (s : Fs) (op : POp) (h : GoodFs W s)
    (ho : OkBytes W (popData op)) : GoodFs W (syncDirStepFx fx path s op) := by
  unfold syncDirStepFx
  exact ⟨applyOp_files _ op h.1 ho, by rw [applyOp_pending]; exact h.2⟩

theorem foldl_syncDirStepFx_good {W : List Nat} (fx : Fixes) (path : Path) (ops : List POp) :
    ∀ (s : Fs), GoodFs W s → PendOk W ops → GoodFs W (ops.foldl (syncDirStepFx fx path) s) := by
  induction ops with
  | nil => intro s h _; exact h
  | cons o r ih =>
    intro s h hops
    apply ih
    · exact syncDirStepFx_good fx path s o h (hops o List.mem_cons_self)
    · exact fun op hop => hops op (List.mem_cons_of_mem _ hop)

theorem syncDirFx_good {W : List Nat} (fx : Fixes) {s s' : Fs} (p : Path) (h : GoodFs W s)
    (hs : syncDirFx fx s p = .ok s') : GoodFs W s' := by
  unfold syncDirFx at hs
  split at hs
  · cases hs
  · simp only [Except.ok.injEq] at hs
    subst hs
    apply foldl_syncDirStepFx_good
    · exact ⟨h.1, pendOk_filter h.2 _⟩
    · exact pendOk_filter h.2 _

theorem mkdirFx_good {W : List Nat} (fx : Fixes) {s s' : Fs} (p : Path) (h : GoodFs W s)
    (hs : mkdirFx fx s p = .ok s') : GoodFs W s' := by
  unfold mkdirFx at hs
  split at hs
  · cases hs
  · split at hs
    · cases hs
    · cases hs; exact push_good h (okBytes_nil W)

theorem rmdirFx_good {W : List Nat} (fx : Fixes) {s s' : Fs} (p : Path) (h : GoodFs W s)
    (hs : rmdirFx fx s p = .ok s') : GoodFs W s' := by
  unfold rmdirFx at hs
  split at hs
  · cases hs
  · split at hs
    · cases hs
    · cases hs; exact push_good h (okBytes_nil W)

theorem unlinkFx_good {W : List Nat} (fx : Fixes) {s s' : Fs} (p : Path) (h : GoodFs W s)
    (hs : unlinkFx fx s p = .ok s') : GoodFs W s' := by
  unfold unlinkFx at hs
  split at hs
  · cases hs
  · cases hs; exact push_good h (okBytes_nil W)

theorem renameFx_good {W : List Nat} (fx : Fixes) {s s' : Fs} (p q : Path) (h : GoodFs W s)
    (hs : renameFx fx s p q = .ok s') : GoodFs W s' := by
  unfold renameFx at hs
  repeat' split at hs
  all_goals first | (cases hs; done) | (cases hs; exact push_good h (okBytes_nil W))

theorem openCreateFx_good {W : List Nat} (fx : Fixes) {s s' : Fs} (p : Path) (fl : Flags) (h : GoodFs W s)
    (hs : openCreateFx fx s p fl = .ok s') : GoodFs W s' := by
  unfold openCreateFx at hs
  repeat' split at hs
  all_goals first | (cases hs; done) | (cases hs; exact h) | (cases hs; exact push_good h (okBytes_nil W))

theorem openFsFx_good {W : List Nat} (fx : Fixes) {s s' : Fs} (p : Path) (fl : Flags) (h : GoodFs W s)
    (hs : openFsFx fx s p fl = .ok s') : GoodFs W s' := by
  unfold openFsFx at hs
  split at hs
  · cases hs
  · next s1 h1 =>
    have g1 := openCreateFx_good fx p fl h h1
    simp only [Except.ok.injEq] at hs
    subst hs
    split
    · exact push_good g1 (okBytes_nil W)
    · exact g1

theorem writeFsFx_good {W : List Nat} (fx : Fixes) {s : Fs} (p : Path) (off : Nat) {d : Bytes} (coin : Bool)
    (h : GoodFs W s) (hd : OkBytes W d) : GoodFs W (writeFsFx fx s p off d coin) := by
  unfold writeFsFx
  have g1 : GoodFs W (if d.isEmpty then s else
      { s with pending := s.pending ++ [.write (if fx.dataKeyResolve then resolvePath s p else p) off d] }) := by
    split
    · exact h
    · exact push_good h hd
  simp only
  split
  · split
    · next s2 hs2 => exact syncFileFx_good fx p g1 hs2
    · exact g1
  · exact g1

theorem setLenFsFx_good {W : List Nat} (fx : Fixes) {s : Fs} (p : Path) (n : Nat) (coin : Bool)
    (h : GoodFs W s) : GoodFs W (setLenFsFx fx s p n coin) := by
  unfold setLenFsFx
  have g1 : GoodFs W { s with pending := s.pending ++ [.setLen (if fx.dataKeyResolve then resolvePath s p else p) n] } :=
    push_good h (okBytes_nil W)
  simp only
  split
  · split
    · next s2 hs2 => exact syncFileFx_good fx p g1 hs2
    · exact g1
  · exact g1

theorem mkdirAllRunFx_good {W : List Nat} (fx : Fixes) (l : List Path) :
    ∀ {s s' : Fs}, GoodFs W s → mkdirAllRunFx fx s l = .ok s' → GoodFs W s' := by
  induction l with
  | nil => intro s s' h hs; simp only [mkdirAllRunFx, Except.ok.injEq] at hs; subst hs; exact h
  | cons d r ih =>
    intro s s' h hs
    simp only [mkdirAllRunFx] at hs
    split at hs
    · exact ih h hs
    · split at hs
      · next s1 h1 => exact ih (mkdirFx_good fx d h h1) hs
      · cases hs

theorem rmContentsFx_good {W : List Nat} (fx : Fixes) (fuel : Nat) :
    ∀ {s : Fs} (path : Path), GoodFs W s → GoodFs W (rmContentsFx fx fuel s path).1 := by
  induction fuel with
  | zero => intro s path h; exact h
  | succ f ih =>
    intro s path h
    simp only [rmContentsFx]
    have key : ∀ (names : List Nat) (acc : Fs × Option Err), GoodFs W acc.1 →
        GoodFs W (names.foldl (fun acc name =>
          match acc.2 with
          | some _ => acc
          | none =>
            let s1 := acc.1
            let e := path ++ [name]
            if dirExistsFx fx s1 e then
              let r := rmContentsFx fx f s1 e
              match r.2 with
              | some er => (r.1, some er)
              | none =>
                match rmdirFx fx r.1 e with
                | .ok s2 => (s2, none)
                | .error er => (r.1, some er)
            else if fileExistsFx fx s1 e then
              match unlinkFx fx s1 e with
              | .ok s2 => (s2, none)
              | .error er => (s1, some er)
            else (s1, none)) acc).1 := by
      intro names
      induction names with
      | nil => intro acc hacc; exact hacc
      | cons nm r ihn =>
        intro acc hacc
        simp only [List.foldl_cons]
        apply ihn
        split
        · exact hacc
        · split
          · have g := ih (path ++ [nm]) hacc
            split
            · exact g
            · split
              · next s2 h2 => exact rmdirFx_good fx _ g h2
              · exact g
          · split
            · split
              · next s2 h2 => exact unlinkFx_good fx _ hacc h2
              · exact hacc
            · exact hacc
    exact key _ (s, none) h

theorem rmdirAllFx_good {W : List Nat} (fx : Fixes) {s : Fs} (p : Path) (h : GoodFs W s) :
    GoodFs W (rmdirAllFx fx s p).1 := by
  unfold rmdirAllFx
  split
  · exact h
  · have g := rmContentsFx_good (W := W) fx 8 p h
    simp only
    split
    · exact g
    · split
      · next s2 h2 => exact rmdirFx_good fx p g h2
      · exact g

theorem stepFx_good {W : List Nat} (fx : Fixes) (cfg : Cfg) (st : St) (op : Op) (ora : Ora)
    (h : GoodFs W st.fs) (hd : OkBytes W (opData op)) : GoodFs W (stepFx fx cfg st op ora).1.fs := by
  cases op with
  | «open» slot p fl =>
    simp only [stepFx]
    split
    · exact h
    · next fs1 h1 => exact openFsFx_good fx p fl (by exact h) h1
  | close slot => simp only [stepFx]; split <;> exact h
  | writeAt slot off d =>
    simp only [stepFx]
    split
    · exact h
    · split
      · exact h
      · exact writeFsFx_good fx _ off ora.coin h hd
  | readAt slot off len => simp only [stepFx]; split; exact h; split <;> exact h
  | write slot d =>
    simp only [stepFx]
    split
    · exact h
    · split
      · exact h
      · exact writeFsFx_good fx _ _ ora.coin h hd
  | read slot len => simp only [stepFx]; split; exact h; split <;> exact h
  | seek slot whence off => simp only [stepFx]; repeat' split
                            all_goals exact h
  | setLen slot n =>
    simp only [stepFx]
    split
    · exact h
    · split
      · exact h
      · exact setLenFsFx_good fx _ n ora.coin h
  | syncAll slot =>
    simp only [stepFx]
    split
    · exact h
    · exact ofExcept_fs h (fun s' hs => syncFileFx_good fx _ h hs)
  | syncData slot =>
    simp only [stepFx]
    split
    · exact h
    · exact ofExcept_fs h (fun s' hs => syncFileFx_good fx _ h hs)
  | hmeta slot => simp only [stepFx]; split <;> exact h
  | mkdir p => exact ofExcept_fs h (fun s' hs => mkdirFx_good fx p h hs)
  | mkdirAll p => exact ofExcept_fs h (fun s' hs => mkdirAllRunFx_good fx _ h hs)
  | rmdir p => exact ofExcept_fs h (fun s' hs => rmdirFx_good fx p h hs)
  | rmdirAll p => exact rmdirAllFx_good fx p h
  | unlink p => exact ofExcept_fs h (fun s' hs => unlinkFx_good fx p h hs)
  | rename p q => exact ofExcept_fs h (fun s' hs => renameFx_good fx p q h hs)
  | syncDir p => exact ofExcept_fs h (fun s' hs => syncDirFx_good fx p h hs)
  | readDir p => simp only [stepFx]; split <;> exact h
  | stat p => simp only [stepFx]; split; exact h; split <;> exact h
  | «exists» p => exact h
  | readFile p => simp only [stepFx]; split <;> exact h
  | writeFile p d =>
    simp only [stepFx]
    split
    · exact h
    · next fs1 h1 => exact writeFsFx_good fx p 0 ora.coin (openFsFx_good fx p _ h h1) hd
  | dump pool => exact h
  | crash =>
    apply crash_good
    show GoodFs W (if fx.crashTree = true then forgetUnreachable st.fs else st.fs)
    split
    · exact h
    · exact h

theorem runStFx_good {W : List Nat} (fx : Fixes) (cfg : Cfg) (h : List (Op × Ora)) :
    ∀ (st : St), GoodFs W st.fs → (∀ x ∈ h, OkBytes W (opData x.1)) → GoodFs W (runStFx fx cfg st h).fs := by
  induction h with
  | nil => intro st hg _; exact hg
  | cons x r ih =>
    intro st hg hd
    obtain ⟨op, ora⟩ := x
    simp only [runStFx]
    apply ih
    · exact stepFx_good fx cfg st op ora hg (hd _ List.mem_cons_self)
    · exact fun y hy => hd y (List.mem_cons_of_mem _ hy)

theorem zeroFrom_ok {W : List Nat} {c : Bytes} (h : OkBytes W c) (n : Nat) : OkBytes W (zeroFrom c n) := by
  intro b hb
  simp only [zeroFrom, List.mem_map] at hb
  obtain ⟨i, _, rfl⟩ := hb
  split
  · exact getD_ok h i
  · exact Or.inl rfl

theorem foldl_contentStepFx_ok {W : List Nat} (fx : Fixes) (s : Fs) (cp : Path) (pend : List POp) :
    ∀ (buf : Bytes), OkBytes W buf → PendOk W pend → OkBytes W (pend.foldl (contentStepFx fx s cp) buf) := by
  induction pend with
  | nil => intro buf hb _; exact hb
  | cons o r ih =>
    intro buf hb hp
    have hr : PendOk W r := fun op hop => hp op (List.mem_cons_of_mem _ hop)
    simp only [List.foldl_cons]
    apply ih _ _ hr
    cases o with
    | write p off d =>
      simp only [contentStepFx]
      split
      · exact overlayClip_ok hb (hp _ List.mem_cons_self) off
      · exact hb
    | setLen p n =>
      simp only [contentStepFx]
      split
      · exact zeroFrom_ok hb n
      · exact hb
    | createFile p => exact hb
    | createDir p => exact hb
    | rename a b => exact hb
    | removeFile p => exact hb
    | removeDir p => exact hb

theorem contentFx_ok {W : List Nat} (fx : Fixes) {s : Fs} (h : GoodFs W s) (p : Path) :
    OkBytes W (contentFx fx s p) := by
  unfold contentFx
  exact foldl_contentStepFx_ok fx s _ _ _ (overlayClip_ok (replicate_ok W _) (getD_alookup_ok h.1 _) 0) h.2

end TV.Fs
