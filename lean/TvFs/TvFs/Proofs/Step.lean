/-
  `sim_step`: one fragment op, same observation, relation re-established.
-/
import TvFs.Proofs.Sim
import TvFs.Proofs.Listing

namespace TV.Fs

theorem R.slot {st : St} {l : Live} (hR : R st l) (i : Nat) :
    (getSlot st i = none ∧ sGetSlot l i = none) ∨
    ∃ hd sh, getSlot st i = some hd ∧ sGetSlot l i = some sh ∧ HandRel l hd sh := hR.slots.get i

/-- the tree changed only in `live` (ents, handles, next untouched) -/
theorem R.of_fs {st : St} {l l' : Live} {fs' : Fs} (hR : R st l) (hfs : FsRel fs' l')
    (he : l'.ents = l.ents) (hh : l'.handles = l.handles) : R { st with fs := fs' } l' :=
  ⟨hfs, hR.slots.mono hh (fun q id hq => by rw [entAt_congr he]; exact hq)⟩

theorem R.set_handle {st : St} {l : Live} (hR : R st l) (i : Nat) (hd : Handle) (sh : SHandle)
    (hr : HandRel l hd sh) : R (setSlot st i hd) (sSetSlot l i sh) := by
  refine ⟨hR.fs.congr rfl rfl rfl, ?_⟩
  exact hR.slots.set i _ _ hr

theorem seek_aux {st : St} {l : Live} (hR : R st l) (slot : Nat) (hd : Handle) (sh : SHandle)
    (hr : HandRel l hd sh) (np : Int) :
    (if np < 0 then (st, Obs.err Err.invalidinput)
      else (setSlot st slot { hd with cursor := np.toNat }, Obs.okN np.toNat)).2 =
    (if np < 0 then (l, Obs.err Err.invalidinput)
      else (sSetSlot l slot { sh with cursor := np.toNat }, Obs.okN np.toNat)).2 ∧
    R (if np < 0 then (st, Obs.err Err.invalidinput)
      else (setSlot st slot { hd with cursor := np.toNat }, Obs.okN np.toNat)).1
      (if np < 0 then (l, Obs.err Err.invalidinput)
      else (sSetSlot l slot { sh with cursor := np.toNat }, Obs.okN np.toNat)).1 := by
  by_cases h : np < 0
  · simp only [h, if_true]; exact ⟨trivial, hR⟩
  · simp only [h, if_false]
    exact ⟨trivial, hR.set_handle slot _ _ ⟨hr.r, hr.w, hr.a, rfl, hr.ent⟩⟩

theorem readSlice_of {fs : Fs} {l : Live} (h : FsRel fs l) {p : Path} {id : Nat}
    (hp : entAt l p = some (.file id)) (off n : Nat) :
    readSlice fs p off n = ((liveContent l id).drop off).take n := by
  unfold readSlice; rw [content_of h hp]

theorem sWrite_ents (l : Live) (id off : Nat) (d : Bytes) : (sWrite l id off d).ents = l.ents := by
  unfold sWrite; split <;> rfl

theorem sWrite_handles (l : Live) (id off : Nat) (d : Bytes) : (sWrite l id off d).handles = l.handles := by
  unfold sWrite; split <;> rfl

theorem ofExcept_fst_fs (st : St) (r : Except Err Fs) :
    (ofExcept st r).1 = match r with | .ok fs => { st with fs := fs } | .error _ => st := by
  cases r <;> rfl

theorem view_eq {fs : Fs} {l : Live} (h : FsRel fs l) (p : Path) : viewOf fs p = sView l p := by
  unfold viewOf sView
  cases hent : entAt l p with
  | none =>
    simp only [h.file, h.dir, isFileAt_of_none hent, isDirAt_of_none hent, Bool.false_eq_true, if_false]
  | some en =>
    cases en with
    | file id =>
      simp only [h.file, isFileAt_of_ent hent, if_true, fileLen_of h hent, content_of h hent]
    | dir id =>
      have h1 : isFileAt l p = false := by simp [isFileAt, hent]
      have h2 : isDirAt l p = true := by simp [isDirAt, hent]
      simp only [h.file, h.dir, h1, h2, Bool.false_eq_true, if_false, if_true, listing_eq h p]

theorem sim_step {st : St} {l : Live} (hR : R st l) (op : Op) (hf : fragOk l op = true) :
    (step {} st op {}).2 = (lStep l op).2 ∧ R (step {} st op {}).1 (lStep l op).1 := by
  cases op with
  | «open» slot p fl =>
    have hf' : (!((fl.c || fl.n) && isDirAt (sDropSlot l slot) p) &&
        (!(fl.t && fl.w) || emptyOrAbsent (sDropSlot l slot) p)) = true := hf
    have h0 : FsRel (dropSlot st slot).fs (sDropSlot l slot) := hR.fs.congr rfl rfl rfl
    have hs0 : SlotRel (dropSlot st slot).slots (sDropSlot l slot) := hR.slots.drop slot
    simp only [step, lStep]
    cases hres : openFs (dropSlot st slot).fs p fl with
    | error e =>
      have hse := open_err h0 p fl hf' e hres
      simp only [hse]
      exact ⟨by first | rfl | trivial, h0, hs0⟩
    | ok fs' =>
      obtain ⟨l', id, hso, hok⟩ := open_ok h0 p fl hf' fs' hres
      simp only [hso]
      refine ⟨by first | rfl | trivial, ?_, ?_⟩
      · exact hok.rel.congr rfl rfl rfl
      · have hm : SlotRel (dropSlot st slot).slots l' := hs0.mono hok.handles hok.keep
        exact hm.set slot _ _ ⟨by first | rfl | trivial, rfl, rfl, rfl, hok.ent⟩
  | close slot =>
    simp only [step, lStep]
    rcases hR.slot slot with ⟨h1, h2⟩ | ⟨hd, sh, h1, h2, _⟩
    · simp only [h1, h2]; exact ⟨by first | rfl | trivial, hR⟩
    · simp only [h1, h2]
      exact ⟨by first | rfl | trivial, hR.fs.congr rfl rfl rfl, hR.slots.drop slot⟩
  | writeAt slot off d =>
    simp only [step, lStep]
    rcases hR.slot slot with ⟨h1, h2⟩ | ⟨hd, sh, h1, h2, hr⟩
    · simp only [h1, h2]; exact ⟨by first | rfl | trivial, hR⟩
    · simp only [h1, h2, hr.w]
      cases hw : sh.writable with
      | false => exact ⟨by first | rfl | trivial, hR⟩
      | true =>
        refine ⟨by first | rfl | trivial, ?_⟩
        exact hR.of_fs (hR.fs.write hr.ent off d) (sWrite_ents _ _ _ _) (sWrite_handles _ _ _ _)
  | readAt slot off len =>
    simp only [step, lStep]
    rcases hR.slot slot with ⟨h1, h2⟩ | ⟨hd, sh, h1, h2, hr⟩
    · simp only [h1, h2]; exact ⟨by first | rfl | trivial, hR⟩
    · simp only [h1, h2, hr.r]
      cases hrd : sh.readable with
      | false => exact ⟨by first | rfl | trivial, hR⟩
      | true =>
        refine ⟨?_, hR⟩
        simp only [Bool.not_true, Bool.false_eq_true, if_false]
        rw [readSlice_of hR.fs hr.ent]
  | write slot d =>
    simp only [step, lStep]
    rcases hR.slot slot with ⟨h1, h2⟩ | ⟨hd, sh, h1, h2, hr⟩
    · simp only [h1, h2]; exact ⟨by first | rfl | trivial, hR⟩
    · simp only [h1, h2, hr.w]
      cases hw : sh.writable with
      | false => exact ⟨by first | rfl | trivial, hR⟩
      | true =>
        simp only [Bool.not_true, Bool.false_eq_true, if_false]
        refine ⟨by first | rfl | trivial, ?_⟩
        have hoff : (if hd.append = true then fileLen st.fs hd.path else hd.cursor) =
            (if sh.append = true then (liveContent l sh.fid).length else sh.cursor) := by
          rw [hr.a, hr.cur, fileLen_of hR.fs hr.ent]
        rw [hoff]
        have hR1 := hR.of_fs (hR.fs.write hr.ent (if sh.append = true then (liveContent l sh.fid).length else sh.cursor) d)
          (sWrite_ents _ _ _ _) (sWrite_handles _ _ _ _)
        apply hR1.set_handle slot
        exact ⟨by first | rfl | exact hr.r, by first | rfl | exact hr.w, by first | rfl | exact hr.a, rfl,
          by rw [entAt_congr (sWrite_ents _ _ _ _)]; exact hr.ent⟩
  | read slot len =>
    simp only [step, lStep]
    rcases hR.slot slot with ⟨h1, h2⟩ | ⟨hd, sh, h1, h2, hr⟩
    · simp only [h1, h2]; exact ⟨by first | rfl | trivial, hR⟩
    · simp only [h1, h2, hr.r]
      cases hrd : sh.readable with
      | false => exact ⟨by first | rfl | trivial, hR⟩
      | true =>
        simp only [Bool.not_true, Bool.false_eq_true, if_false]
        rw [readSlice_of hR.fs hr.ent, hr.cur]
        refine ⟨by first | rfl | trivial, ?_⟩
        apply hR.set_handle slot
        exact ⟨by first | rfl | exact hr.r, by first | rfl | exact hr.w, by first | rfl | exact hr.a, rfl, hr.ent⟩
  | seek slot whence off =>
    simp only [step, lStep]
    rcases hR.slot slot with ⟨h1, h2⟩ | ⟨hd, sh, h1, h2, hr⟩
    · simp only [h1, h2]; exact ⟨by first | rfl | trivial, hR⟩
    · simp only [h1, h2]
      rw [fileLen_of hR.fs hr.ent, hr.cur]
      exact seek_aux hR slot hd sh hr _
  | setLen slot n =>
    simp only [step, lStep]
    rcases hR.slot slot with ⟨h1, h2⟩ | ⟨hd, sh, h1, h2, hr⟩
    · simp only [h1, h2]; exact ⟨by first | rfl | trivial, hR⟩
    · simp only [h1, h2, hr.w]
      cases hw : sh.writable with
      | false => exact ⟨by first | rfl | trivial, hR⟩
      | true =>
        refine ⟨by first | rfl | trivial, ?_⟩
        have hn : (liveContent l sh.fid).length ≤ n := by
          have : sGetSlot l slot = some sh := h2
          simp only [fragOk, this, hw] at hf
          simpa using hf
        exact hR.of_fs (hR.fs.setLen hr.ent n hn) rfl rfl
  | syncAll slot =>
    simp only [step, lStep]
    rcases hR.slot slot with ⟨h1, h2⟩ | ⟨hd, sh, h1, h2, hr⟩
    · simp only [h1, h2]; exact ⟨by first | rfl | trivial, hR⟩
    · simp only [h1, h2]
      have hex : fileExists st.fs hd.path = true := by rw [hR.fs.file, isFileAt_of_ent hr.ent]
      cases hs : syncFile st.fs hd.path with
      | error e => simp [syncFile, hex] at hs
      | ok fs' =>
        refine ⟨by first | rfl | trivial, ?_⟩
        exact hR.of_fs (hR.fs.sync (syncFile_views hR.fs.noRN hR.fs.mono hs)) rfl rfl
  | syncData slot =>
    simp only [step, lStep]
    rcases hR.slot slot with ⟨h1, h2⟩ | ⟨hd, sh, h1, h2, hr⟩
    · simp only [h1, h2]; exact ⟨by first | rfl | trivial, hR⟩
    · simp only [h1, h2]
      have hex : fileExists st.fs hd.path = true := by rw [hR.fs.file, isFileAt_of_ent hr.ent]
      cases hs : syncFile st.fs hd.path with
      | error e => simp [syncFile, hex] at hs
      | ok fs' =>
        refine ⟨by first | rfl | trivial, ?_⟩
        exact hR.of_fs (hR.fs.sync (syncFile_views hR.fs.noRN hR.fs.mono hs)) rfl rfl
  | hmeta slot =>
    simp only [step, lStep]
    rcases hR.slot slot with ⟨h1, h2⟩ | ⟨hd, sh, h1, h2, hr⟩
    · simp only [h1, h2]; exact ⟨by first | rfl | trivial, hR⟩
    · simp only [h1, h2]
      rw [fileLen_of hR.fs hr.ent]
      exact ⟨by first | rfl | trivial, hR⟩
  | mkdir p =>
    simp only [step, lStep]
    unfold Fs.mkdir sMkdir
    rw [parentExists_eq hR.fs]
    cases hpar : sParentIsDir l p with
    | false => exact ⟨by first | rfl | trivial, hR⟩
    | true =>
      simp only [Bool.not_true, Bool.false_eq_true, if_false]
      cases hent : entAt l p with
      | some en =>
        have hex : (dirExists st.fs p || fileExists st.fs p) = true := by
          rw [hR.fs.dir, hR.fs.file]
          cases en <;> simp [isDirAt, isFileAt, hent]
        simp only [hex, if_true, Option.isSome_some]
        exact ⟨by first | rfl | trivial, hR⟩
      | none =>
        have hex : (dirExists st.fs p || fileExists st.fs p) = false := by
          rw [hR.fs.dir, hR.fs.file, isDirAt_of_none hent, isFileAt_of_none hent]; rfl
        simp only [hex, Bool.false_eq_true, if_false, Option.isSome_none]
        refine ⟨by first | rfl | trivial, ?_⟩
        have hfs := hR.fs.mkdir p hent
        have hp0 := ne_root_of_entAt_none hent
        refine ⟨hfs, ?_⟩
        show SlotRel st.slots (mkdirL l p)
        apply hR.slots.mono (l' := mkdirL l p) rfl
        intro q id hq
        rw [entAt_mkdirL l p q hp0]
        have : q ≠ p := by intro e; subst e; rw [hent] at hq; cases hq
        simp [this, hq]
  | syncDir p =>
    simp only [step, lStep]
    cases hd : isDirAt l p with
    | false =>
      have : dirExists st.fs p = false := by rw [hR.fs.dir, hd]
      simp [syncDir, this, ofExcept]
      exact hR
    | true =>
      have hde : dirExists st.fs p = true := by rw [hR.fs.dir, hd]
      cases hs : syncDir st.fs p with
      | error e => simp [syncDir, hde] at hs
      | ok fs' =>
        simp only [if_true]
        refine ⟨by first | rfl | trivial, ?_⟩
        exact hR.of_fs (hR.fs.sync (syncDir_views hR.fs.noRN hR.fs.mono hs)) rfl rfl
  | stat p =>
    simp only [step, lStep]
    cases hent : entAt l p with
    | none =>
      simp only [hR.fs.file, hR.fs.dir, isFileAt_of_none hent, isDirAt_of_none hent]
      exact ⟨by first | rfl | trivial, hR⟩
    | some en =>
      cases en with
      | file id =>
        simp only [hR.fs.file, isFileAt_of_ent hent, if_true, fileLen_of hR.fs hent]
        exact ⟨by first | rfl | trivial, hR⟩
      | dir id =>
        have h1 : isFileAt l p = false := by simp [isFileAt, hent]
        have h2 : isDirAt l p = true := by simp [isDirAt, hent]
        simp only [hR.fs.file, hR.fs.dir, h1, h2]
        exact ⟨by first | rfl | trivial, hR⟩
  | «exists» p =>
    simp only [step, lStep]
    refine ⟨?_, hR⟩
    rw [hR.fs.file, hR.fs.dir]
    cases hent : entAt l p with
    | none => simp [isFileAt, isDirAt, hent]
    | some en => cases en <;> simp [isFileAt, isDirAt, hent]
  | readFile p =>
    simp only [step, lStep]
    cases hent : entAt l p with
    | none =>
      simp only [hR.fs.file, isFileAt_of_none hent]
      exact ⟨by first | rfl | trivial, hR⟩
    | some en =>
      cases en with
      | file id =>
        simp only [hR.fs.file, isFileAt_of_ent hent, if_true, content_of hR.fs hent]
        exact ⟨by first | rfl | trivial, hR⟩
      | dir id =>
        have h1 : isFileAt l p = false := by simp [isFileAt, hent]
        simp only [hR.fs.file, h1]
        exact ⟨by first | rfl | trivial, hR⟩
  | writeFile p d =>
    have hf' : (!((true || false) && isDirAt l p) && (!(true && true) || emptyOrAbsent l p)) = true := by
      simp only [fragOk] at hf
      simpa using hf
    simp only [step, lStep]
    cases hres : openFs st.fs p { w := true, c := true, t := true } with
    | error e =>
      have hse := open_err hR.fs p { w := true, c := true, t := true } hf' e hres
      simp only [hse]
      exact ⟨by first | rfl | trivial, hR⟩
    | ok fs' =>
      obtain ⟨l', id, hso, hok⟩ := open_ok hR.fs p { w := true, c := true, t := true } hf' fs' hres
      simp only [hso]
      refine ⟨by first | rfl | trivial, ?_⟩
      refine ⟨hok.rel.write hok.ent 0 d, ?_⟩
      apply hR.slots.mono
      · rw [sWrite_handles]; exact hok.handles
      · intro q j hq
        rw [entAt_congr (sWrite_ents _ _ _ _)]
        exact hok.keep q j hq
  | mkdirAll p => simp [fragOk] at hf
  | rmdir p => simp [fragOk] at hf
  | rmdirAll p => simp [fragOk] at hf
  | unlink p => simp [fragOk] at hf
  | rename p q => simp [fragOk] at hf
  | readDir p =>
    simp only [step, lStep]
    rw [hR.fs.dir, listing_eq hR.fs p]
    split
    · exact ⟨rfl, hR⟩
    · exact ⟨rfl, hR⟩
  | dump pool =>
    simp only [step, lStep]
    refine ⟨?_, hR⟩
    congr 1
    apply List.map_congr_left
    intro p _
    rw [view_eq hR.fs p]
  | crash => simp [fragOk] at hf

end TV.Fs
