/-
  Helper lemmas about `crash` (idempotence, projection onto the synced persisted state).
-/
import TvFs.Model.Fs

namespace TV.Fs

theorem tornCollect_nil (syn : List Path) (b : Nat) (ora : List Nat) : tornCollect syn b [] ora = [] := by
  cases ora <;> rfl

theorem crash_pending (s : Fs) (b : Option Nat) (t : List Nat) : (crash s b t).pending = [] := rfl

theorem crash_synced (s : Fs) (b : Option Nat) (t : List Nat) : (crash s b t).synced = s.synced := rfl

/-- crash ∘ crash = crash, for any block sizes and any torn-write oracles -/
theorem crash_crash (s : Fs) (b b' : Option Nat) (t t' : List Nat) :
    crash (crash s b t) b' t' = crash s b t := by
  cases b' with
  | none =>
    simp [crash, List.filter_filter]
  | some bs =>
    simp [crash, List.filter_filter, tornCollect_nil, tornApply]

/-- without torn writes a crash ignores the pending log completely: every unsynced op is rolled back -/
theorem crash_ignores_pending (s : Fs) (t : List Nat) (ops : List POp) :
    crash { s with pending := ops } none t = crash s none t := rfl

theorem alookup_filter (p : Path) (f : Path → Bool) :
    ∀ (l : List (Path × Bytes)),
      alookup p (l.filter fun kv => f kv.1) = if f p then alookup p l else none := by
  intro l
  induction l with
  | nil => simp [alookup]
  | cons kv r ih =>
    obtain ⟨k, v⟩ := kv
    rw [List.filter_cons]
    by_cases hs : f k = true
    · simp only [hs, if_true]
      by_cases hk : k = p
      · subst hk; simp [alookup, hs]
      · simp [alookup, hk, ih]
    · have hs' : f k = false := by simpa using hs
      simp only [hs']
      by_cases hk : k = p
      · subst hk; simp [hs', ih]
      · simp [alookup, hk, ih]

theorem alookup_filter_of_mem (p : Path) (syn : List Path) (hp : syn.contains p = true)
    (l : List (Path × Bytes)) : alookup p (l.filter fun kv => syn.contains kv.1) = alookup p l := by
  rw [alookup_filter p (fun k => syn.contains k) l]; simp only [hp, if_true]

theorem alookup_filter_of_not_mem (p : Path) (syn : List Path) (hp : syn.contains p = false)
    (l : List (Path × Bytes)) : alookup p (l.filter fun kv => syn.contains kv.1) = none := by
  rw [alookup_filter p (fun k => syn.contains k) l]; simp only [hp]; rfl

end TV.Fs
