/-
  F-C07-12a: `Fs::crash` with the crash-image repair (`crashFx`, flag `crashTree`): the durable names of
  unreachable entries are forgotten first, then the crash proceeds as before.
-/
import TvFs.Model.Fixed
import TvFs.Proofs.Crash

namespace TV.Fs

theorem mem_properAncestors {p a : Path} :
    a ∈ properAncestors p ↔ ∃ k, k + 1 < p.length ∧ a = p.take (k + 1) := by
  unfold properAncestors
  simp only [List.mem_map, List.mem_range]
  constructor
  · rintro ⟨k, hk, rfl⟩; exact ⟨k, by omega, rfl⟩
  · rintro ⟨k, hk, rfl⟩; exact ⟨k, by omega, rfl⟩

theorem attachedTo_iff {dd : List Path} {p : Path} :
    attachedTo dd p = true ↔ ∀ k, k + 1 < p.length → dd.contains (p.take (k + 1)) = true := by
  unfold attachedTo
  rw [List.all_eq_true]
  constructor
  · intro h k hk; exact h _ (mem_properAncestors.mpr ⟨k, hk, rfl⟩)
  · intro h a ha
    obtain ⟨k, hk, rfl⟩ := mem_properAncestors.mp ha
    exact h k hk

/-- the ancestors of an ancestor are ancestors -/
theorem attachedTo_take {dd : List Path} {p : Path} (h : attachedTo dd p = true) (k : Nat) (hk : k + 1 < p.length) :
    attachedTo dd (p.take (k + 1)) = true := by
  rw [attachedTo_iff] at h ⊢
  intro j hj
  have hl : (p.take (k + 1)).length = k + 1 := by rw [List.length_take]; omega
  rw [hl] at hj
  rw [List.take_take]
  have : min (j + 1) (k + 1) = j + 1 := by omega
  rw [this]
  exact h j (by omega)

theorem forget_synced_contains (s : Fs) (p : Path) :
    (forgetUnreachable s).synced.contains p = (s.synced.contains p && attachedTo (durableDirs s) p) := by
  unfold forgetUnreachable
  rw [Bool.eq_iff_iff]
  simp only [List.contains_iff_mem, List.mem_filter, Bool.and_eq_true]

theorem forget_files (s : Fs) : (forgetUnreachable s).files = s.files := rfl
theorem forget_dirs (s : Fs) : (forgetUnreachable s).dirs = s.dirs := rfl
theorem forget_pending (s : Fs) : (forgetUnreachable s).pending = s.pending := rfl

theorem mem_durableDirs {s : Fs} {a : Path} :
    (durableDirs s).contains a = true ↔ s.dirs.contains a = true ∧ s.synced.contains a = true := by
  unfold durableDirs
  simp only [List.contains_iff_mem, List.mem_filter]

/-- after the crash every name that is still durable is attached to the directories that survived -/
theorem crash_forget_attached (s : Fs) (b : Option Nat) (t : List Nat) (p : Path)
    (hp : (forgetUnreachable s).synced.contains p = true) :
    attachedTo (durableDirs (crash (forgetUnreachable s) b t)) p = true := by
  rw [forget_synced_contains, Bool.and_eq_true] at hp
  obtain ⟨_, hat⟩ := hp
  rw [attachedTo_iff]
  intro k hk
  have ha := (attachedTo_iff.mp hat) k hk
  obtain ⟨hd, hs⟩ := mem_durableDirs.mp ha
  have hs1 : (forgetUnreachable s).synced.contains (p.take (k + 1)) = true := by
    rw [forget_synced_contains, hs, attachedTo_take hat k hk]; rfl
  apply mem_durableDirs.mpr
  refine ⟨?_, hs1⟩
  show ((forgetUnreachable s).dirs.filter fun d => (forgetUnreachable s).synced.contains d).contains _ = true
  simp only [List.contains_iff_mem, List.mem_filter]
  exact ⟨by simpa [forget_dirs] using hd, by simpa using hs1⟩

/-- forgetting is idempotent on a crash image -/
theorem forget_crash_forget (s : Fs) (b : Option Nat) (t : List Nat) :
    forgetUnreachable (crash (forgetUnreachable s) b t) = crash (forgetUnreachable s) b t := by
  have h : (crash (forgetUnreachable s) b t).synced.filter
      (attachedTo (durableDirs (crash (forgetUnreachable s) b t))) = (crash (forgetUnreachable s) b t).synced := by
    rw [List.filter_eq_self]
    intro p hp
    apply crash_forget_attached s b t p
    rw [crash_synced] at hp
    exact List.contains_iff_mem.mpr hp
  show ({ (crash (forgetUnreachable s) b t) with synced := _ } : Fs) = _
  rw [h]

/-- crash ∘ crash = crash with the repair as well -/
theorem crashFx_crashFx (fx : Fixes) (s : Fs) (b b' : Option Nat) (t t' : List Nat) :
    crashFx fx (crashFx fx s b t) b' t' = crashFx fx s b t := by
  unfold crashFx
  cases fx.crashTree with
  | false => exact crash_crash s b b' t t'
  | true =>
    simp only [if_true]
    rw [forget_crash_forget, crash_crash]

theorem crashFx_off (fx : Fixes) (h : fx.crashTree = false) (s : Fs) (b : Option Nat) (t : List Nat) :
    crashFx fx s b t = crash s b t := by
  unfold crashFx; simp [h]

/-- the crash image is a tree: every proper ancestor (below the root) of a surviving file or
    directory is a surviving directory -/
theorem crashFx_tree (fx : Fixes) (hfx : fx.crashTree = true) (s : Fs) (b : Option Nat) (t : List Nat) (p : Path)
    (hp : (alookup p (crashFx fx s b t).files).isSome = true ∨ (crashFx fx s b t).dirs.contains p = true) :
    ∀ a ∈ properAncestors p, (crashFx fx s b t).dirs.contains a = true := by
  unfold crashFx at hp ⊢
  simp only [hfx, if_true] at hp ⊢
  have hsyn : (forgetUnreachable s).synced.contains p = true := by
    rcases hp with h | h
    · simp only [crash] at h
      rw [alookup_filter p (fun k => (forgetUnreachable s).synced.contains k)] at h
      by_cases hc : (forgetUnreachable s).synced.contains p = true
      · exact hc
      · have hc' : (forgetUnreachable s).synced.contains p = false := by simpa using hc
        rw [hc'] at h
        simp at h
    · simp only [crash, List.contains_iff_mem, List.mem_filter] at h
      simpa using h.2
  have hat := crash_forget_attached s b t p hsyn
  intro a ha
  obtain ⟨k, hk, rfl⟩ := mem_properAncestors.mp ha
  exact (mem_durableDirs.mp ((attachedTo_iff.mp hat) k hk)).1

end TV.Fs
