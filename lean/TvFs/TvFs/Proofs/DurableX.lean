/-
  The durable refinement (`D`) for the model of the committed code on the flat fragment `flatRunC`:
  shrinking `set_len`, truncating opens and `fs::write` over non-empty files included.
-/
import TvFs.Proofs.StepX
import TvFs.Proofs.CommittedSpec
import TvFs.Proofs.CrashTree

namespace TV.Fs

theorem flat_not_dir {l : Live} (hf : Flat l) (n id : Nat) : entAt l [n] ≠ some (.dir id) := by
  intro h
  have : elookup [n] l.ents = some (.dir id) := by simpa [entAt] using h
  obtain ⟨fid, hfid⟩ := (hf [n] _ (elookup_mem this)).2
  cases hfid

theorem Flat_dropSlot {l : Live} (hf : Flat l) (i : Nat) : Flat (sDropSlot l i) := hf

/-- every op of the flat fragment of the committed code preserves the durable relation `D`
    (shrinking `set_len`, truncating opens and `fs::write` over non-empty files included) -/
theorem dsim_stepX {st : St} {sp : Spec} (hR : RX st sp.l) (hD : D st.fs sp.l sp.dur sp.dents) (op : Op)
    (hf : fragOkC op = true) (hfl : opFlat op = true) :
    D (stepFx fxc {} st op {}).1.fs (sStep {} sp op {}).1.l (sStep {} sp op {}).1.dur (sStep {} sp op {}).1.dents := by
  have hnr := hR.fs.noRN
  cases op with
  | «open» slot p fl =>
    obtain ⟨n, hn⟩ := flat_path_of_len (by simpa [opFlat] using hfl)
    subst hn
    have h0 : FsRelX (dropSlot st slot).fs (sDropSlot sp.l slot) := hR.fs.congr rfl rfl rfl
    have hnd : ∀ id, entAt (sDropSlot sp.l slot) [n] ≠ some (.dir id) := fun id => flat_not_dir hD.flat n id
    have hD0 : D st.fs (sDropSlot sp.l slot) sp.dur sp.dents := hD.keepLike (KeepLike.refl _) rfl rfl
    simp only [stepFx, sStep, lStep, dStep]
    cases hres : openFsFx fxc (dropSlot st slot).fs [n] fl with
    | error e =>
      have hse := open_errX h0 [n] fl e hres
      simp only [hse]
      exact hD0
    | ok fs' =>
      obtain ⟨l', id, hso, _⟩ := open_okX h0 [n] fl fs' hres
      simp only [hso]
      rw [openFsFx_nodir h0 [n] fl hnd] at hres
      have := hD0.open h0 n fl id hres hso
      exact this.keepLike (KeepLike.refl _) rfl rfl
  | close slot =>
    simp only [stepFx, sStep, lStep, dStep]
    rcases hR.slot slot with ⟨h1, h2⟩ | ⟨hd, sh, h1, h2, _⟩
    · simp only [h1, h2]; exact hD
    · simp only [h1, h2]; exact hD.keepLike (KeepLike.refl _) rfl rfl
  | writeAt slot off d =>
    simp only [stepFx, sStep, lStep]
    rcases hR.slot slot with ⟨h1, h2⟩ | ⟨hd, sh, h1, h2, hr⟩
    · simp only [h1, h2, dStep]; exact hD
    · simp only [h1, h2, hr.w]
      cases hw : sh.writable with
      | false => simp only [dStep, h2]; exact hD
      | true =>
        simp only [Bool.not_true, Bool.false_eq_true, if_false, dStep, h2]
        rw [wlog_dur, wlog_dents]
        simp only [writeFsFx_c hnr]
        exact hD.keepLike (KeepLike.writeFs _ _ _ _) (sWrite_ents _ _ _ _) (sWrite_next _ _ _ _)
  | readAt slot off len =>
    simp only [stepFx, sStep, lStep, dStep]
    rcases hR.slot slot with ⟨h1, h2⟩ | ⟨hd, sh, h1, h2, hr⟩
    · simp only [h1, h2]; exact hD
    · simp only [h1, h2, hr.r]
      split <;> exact hD
  | write slot d =>
    simp only [stepFx, sStep, lStep]
    rcases hR.slot slot with ⟨h1, h2⟩ | ⟨hd, sh, h1, h2, hr⟩
    · simp only [h1, h2, dStep]; exact hD
    · simp only [h1, h2, hr.w]
      cases hw : sh.writable with
      | false => simp only [dStep, h2]; exact hD
      | true =>
        simp only [Bool.not_true, Bool.false_eq_true, if_false, dStep, h2]
        rw [wlog_dur, wlog_dents]
        simp only [writeFsFx_c hnr]
        exact hD.keepLike (KeepLike.writeFs _ _ _ _) (sWrite_ents _ _ _ _) (sWrite_next _ _ _ _)
  | read slot len =>
    simp only [stepFx, sStep, lStep, dStep]
    rcases hR.slot slot with ⟨h1, h2⟩ | ⟨hd, sh, h1, h2, hr⟩
    · simp only [h1, h2]; exact hD
    · simp only [h1, h2, hr.r]
      split
      · exact hD
      · exact hD.keepLike (KeepLike.refl _) rfl rfl
  | seek slot whence off =>
    simp only [stepFx, sStep, lStep, dStep]
    rcases hR.slot slot with ⟨h1, h2⟩ | ⟨hd, sh, h1, h2, hr⟩
    · simp only [h1, h2]; exact hD
    · simp only [h1, h2]
      rw [fileLen_ofX hR.fs hr.ent, hr.cur]
      exact seek_D hD slot hd sh _
  | setLen slot n =>
    simp only [stepFx, sStep, lStep]
    rcases hR.slot slot with ⟨h1, h2⟩ | ⟨hd, sh, h1, h2, hr⟩
    · simp only [h1, h2, dStep]; exact hD
    · simp only [h1, h2, hr.w]
      cases hw : sh.writable with
      | false => simp only [dStep, h2]; exact hD
      | true =>
        simp only [Bool.not_true, Bool.false_eq_true, if_false, dStep, h2]
        simp only [setLenFsFx_c hnr]
        exact hD.keepLike (KeepLike.setLenFs _ _ _) rfl rfl
  | syncAll slot =>
    simp only [stepFx, sStep, lStep, dStep]
    rcases hR.slot slot with ⟨h1, h2⟩ | ⟨hd, sh, h1, h2, hr⟩
    · simp only [h1, h2]; exact hD
    · simp only [h1, h2]
      obtain ⟨n, hn⟩ := flat_of_file hD.flat hr.ent
      have hex : fileExists st.fs hd.path = true := by rw [hR.fs.file, isFileAt_of_ent hr.ent]
      rw [syncFileFx_c hnr]
      cases hs : syncFile st.fs hd.path with
      | error e => simp [syncFile, hex] at hs
      | ok fs' =>
        rw [hn] at hs
        have hent := hr.ent
        rw [hn] at hent
        exact hD.syncFile hR.fs hent hs
  | syncData slot =>
    simp only [stepFx, sStep, lStep, dStep]
    rcases hR.slot slot with ⟨h1, h2⟩ | ⟨hd, sh, h1, h2, hr⟩
    · simp only [h1, h2]; exact hD
    · simp only [h1, h2]
      obtain ⟨n, hn⟩ := flat_of_file hD.flat hr.ent
      have hex : fileExists st.fs hd.path = true := by rw [hR.fs.file, isFileAt_of_ent hr.ent]
      rw [syncFileFx_c hnr]
      cases hs : syncFile st.fs hd.path with
      | error e => simp [syncFile, hex] at hs
      | ok fs' =>
        rw [hn] at hs
        have hent := hr.ent
        rw [hn] at hent
        exact hD.syncFile hR.fs hent hs
  | hmeta slot =>
    simp only [stepFx, sStep, lStep, dStep]
    rcases hR.slot slot with ⟨h1, h2⟩ | ⟨hd, sh, h1, h2, hr⟩
    · simp only [h1, h2]; exact hD
    · simp only [h1, h2]; exact hD
  | syncDir p =>
    have hp : p = [] := by simpa [opFlat] using hfl
    subst hp
    have hd : isDirAt sp.l [] = true := by simp [isDirAt, entAt]
    have hde : dirExists st.fs [] = true := by rw [hR.fs.dir, hd]
    simp only [stepFx, sStep, lStep, dStep, hd, if_true]
    rw [syncDirFx_c hnr]
    cases hs : syncDir st.fs [] with
    | error e => simp [syncDir, hde] at hs
    | ok fs' =>
      obtain ⟨e1, e2⟩ := sSyncDir_root sp.l sp hD.flat hD.keys0
      simp only [ofExcept]
      rw [e1, e2]
      exact hD.syncDirRoot hR.fs hs
  | stat p =>
    simp only [stepFx, sStep, lStep, dStep]
    have e1 : (if fileExistsFx fxc st.fs p = true then (st, Obs.file (fileLen st.fs p))
        else if dirExistsFx fxc st.fs p = true then (st, Obs.dir) else (st, Obs.err Err.notfound)).1 = st := by
      split
      · rfl
      · split <;> rfl
    rw [e1]
    cases hent : entAt sp.l p with
    | none => exact hD
    | some en => cases en <;> exact hD
  | «exists» p =>
    simp only [stepFx, sStep, lStep, dStep]
    exact hD
  | readFile p =>
    simp only [stepFx, sStep, lStep, dStep]
    have e1 : (if fileExistsFx fxc st.fs p = true then (st, Obs.data (contentFx fxc st.fs p))
        else (st, Obs.err Err.notfound)).1 = st := by
      split <;> rfl
    rw [e1]
    cases hent : entAt sp.l p with
    | none => exact hD
    | some en => cases en <;> exact hD
  | writeFile p d =>
    obtain ⟨n, hn⟩ := flat_path_of_len (by simpa [opFlat] using hfl)
    subst hn
    have hnd : ∀ id, entAt sp.l [n] ≠ some (.dir id) := fun id => flat_not_dir hD.flat n id
    simp only [stepFx, sStep, lStep]
    cases hres : openFsFx fxc st.fs [n] { w := true, c := true, t := true } with
    | error e =>
      have hse := open_errX hR.fs [n] { w := true, c := true, t := true } e hres
      simp only [hse, dStep]
      cases hent : entAt sp.l [n] with
      | none => exact hD
      | some en => cases en <;> exact hD
    | ok fs' =>
      obtain ⟨l', id, hso, hok⟩ := open_okX hR.fs [n] { w := true, c := true, t := true } fs' hres
      simp only [hso, dStep]
      have hent' : entAt (sWrite l' id 0 d) [n] = some (.file id) := by
        rw [entAt_congr (sWrite_ents _ _ _ _)]; exact hok.ent
      simp only [hent', Bool.false_eq_true, if_false]
      rw [wlog_dur, wlog_dents]
      rw [openFsFx_nodir hR.fs [n] _ hnd] at hres
      have hD1 := hD.open hR.fs n _ id hres hso
      simp only [writeFsFx_c hok.rel.noRN]
      exact hD1.keepLike (KeepLike.writeFs _ _ _ _) (sWrite_ents _ _ _ _) (sWrite_next _ _ _ _)
  | mkdir p => simp [opFlat] at hfl
  | mkdirAll p => simp [fragOkC] at hf
  | rmdir p => simp [fragOkC] at hf
  | rmdirAll p => simp [fragOkC] at hf
  | unlink p => simp [fragOkC] at hf
  | rename p q => simp [fragOkC] at hf
  | readDir p =>
    simp only [stepFx, sStep, lStep, dStep]
    have e1 : (if dirExistsFx fxc st.fs p = true then (st, Obs.entries (dirEntryNamesFx fxc st.fs p))
        else (st, Obs.err Err.notfound)).1 = st := by
      split <;> rfl
    rw [e1]
    split <;> exact hD
  | dump pool =>
    simp only [stepFx, sStep, lStep, dStep]
    exact hD
  | crash => simp [fragOkC] at hf


theorem flat_statesX : ∀ (h : List Op) (st : St) (sp : Spec), RX st sp.l → D st.fs sp.l sp.dur sp.dents →
    flatRunC h = true →
    RX (runStFx fxc {} st (quiet h)) (sRunSt {} sp (quiet h)).l ∧
    D (runStFx fxc {} st (quiet h)).fs (sRunSt {} sp (quiet h)).l (sRunSt {} sp (quiet h)).dur
      (sRunSt {} sp (quiet h)).dents := by
  intro h
  induction h with
  | nil => intro st sp hR hD _; exact ⟨hR, hD⟩
  | cons op r ih =>
    intro st sp hR hD hf
    simp only [flatRunC, List.all_cons, Bool.and_eq_true] at hf
    obtain ⟨⟨hfo, hfl⟩, hfr⟩ := hf
    have hnc : op ≠ .crash := fragOkC_not_crash hfo
    have hl := sStep_l sp op hnc
    have hR' : RX (stepFx fxc {} st op {}).1 (sStep {} sp op {}).1.l := by
      rw [hl]; exact (sim_stepX hR op hfo).2
    have hD' := dsim_stepX hR hD op hfo hfl
    simp only [quiet, List.map_cons, runStFx, sRunSt]
    exact ih _ _ hR' hD' (by simpa [flatRunC] using hfr)

theorem attachedTo_single (dd : List Path) (n : Nat) : attachedTo dd [n] = true := rfl

theorem forget_synced_single (s : Fs) (n : Nat) :
    (forgetUnreachable s).synced.contains [n] = s.synced.contains [n] := by
  rw [forget_synced_contains, attachedTo_single, Bool.and_true]

/-- the durable relation speaks about root-level names only, and those are never unreachable -/
theorem D.forget {fs : Fs} {l : Live} {dur : List (Nat × Bytes)} {dents : List ((Nat × Nat) × Ent)}
    (h : D fs l dur dents) : D (forgetUnreachable fs) l dur dents :=
  { sync := fun n id hp => by rw [forget_synced_single]; exact h.sync n id hp
    cont := h.cont
    pers := fun n hp => by rw [forget_synced_single] at hp; exact h.pers n hp
    junk := h.junk
    keys0 := h.keys0
    dfiles := h.dfiles
    slive := fun n hp => by rw [forget_synced_single] at hp; exact h.slive n hp
    cf := fun n hp => by rw [forget_synced_single]; exact h.cf n hp
    durFresh := h.durFresh
    nocd := h.nocd
    rootOnly := h.rootOnly
    flat := h.flat }

/-- `C07_partial` on the model of the committed code -/
theorem c07_partial_committedX (h : List Op) (hf : flatRunC h = true) (ora : Ora) (n : Nat) :
    viewOfFx fxc (runStFx fxc {} St.init (quiet h ++ [(Op.crash, ora)])).fs [n] =
      sView (sRunStFx fxc {} Spec.init (quiet h ++ [(Op.crash, ora)])).l [n] := by
  obtain ⟨_, hD⟩ := flat_statesX h St.init Spec.init RX_init D_init hf
  rw [runStFx_append, sRunStFx_append]
  rw [flat_spec_states h Spec.init rfl idsBelow_init hf]
  -- the crash step: the repaired crash first forgets unreachable names (none at the root), then it is
  -- the same on both models; after it the log is empty
  show viewOfFx fxc (crash (forgetUnreachable (runStFx fxc {} St.init (quiet h)).fs) none ora.torn) [n] =
    sView (sCrash (sRunSt {} Spec.init (quiet h)) none ora.torn).l [n]
  have hv : viewOfFx fxc (crash (forgetUnreachable (runStFx fxc {} St.init (quiet h)).fs) none ora.torn) [n] =
      viewOf (crash (forgetUnreachable (runStFx fxc {} St.init (quiet h)).fs) none ora.torn) [n] :=
    viewOfFx_c (s := crash _ none ora.torn) NoRN.nil (fun _ => trivial) [n]
  rw [hv]
  exact crash_view hD.forget ora.torn ora.torn n

end TV.Fs
