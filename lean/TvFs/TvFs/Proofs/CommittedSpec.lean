/-
  The durable spec of the committed code (`sStepFx Fixes.committed`: renames durable as a whole, ghost
  `touched`) coincides with the plain durable spec on the flat fragment — there is no rename, so the
  ghost stays empty.
-/
import TvFs.Proofs.Committed

namespace TV.Fs

def entId : Ent → Nat
  | .file id => id
  | .dir id => id

def IdsBelow (l : Live) : Prop := ∀ kv ∈ l.ents, entId kv.2 < l.next

theorem touchUpd_nil (l l' : Live)
    (h : ∀ qe ∈ l'.ents, qe ∈ l.ents ∨ ∀ kv ∈ l.ents, kv.2 ≠ qe.2) : touchUpd l l' [] = [] := by
  unfold touchUpd
  simp only [List.nil_append]
  apply List.flatMap_eq_nil_iff.mpr
  intro qe hqe
  by_cases hc : l.ents.contains qe = true
  · simp only [hc, if_true]
  · have hc' : l.ents.contains qe = false := by simpa using hc
    simp only [hc', Bool.false_eq_true, if_false]
    rcases h qe hqe with h1 | h1
    · exact absurd (List.contains_iff_mem.mpr h1) hc
    · have : l.ents.find? (fun kv => kv.2 == qe.2) = none := by
        rw [List.find?_eq_none]
        intro kv hkv
        simpa using h1 kv hkv
      rw [this]

/-- shape of the namespace after one op of the flat fragment: unchanged, or one fresh file added -/
def EntsStep (l l' : Live) : Prop :=
  (l'.ents = l.ents ∧ l'.next = l.next) ∨
  (∃ p, l'.ents = (l.ents.filter fun kv => kv.1 != p) ++ [(p, Ent.file l.next)] ∧ l'.next = l.next + 1)

theorem sOpen_ents {l l' : Live} {p : Path} {fl : Flags} {id : Nat} (h : sOpen l p fl = .ok (l', id)) :
    EntsStep l l' := by
  unfold sOpen at h
  split at h
  · split at h
    · cases h
    · split at h
      · cases h; exact Or.inl ⟨rfl, rfl⟩
      · cases h; exact Or.inl ⟨rfl, rfl⟩
  · split at h
    · cases h
    · split at h <;> cases h
  · split at h
    · split at h
      · cases h
      · cases h; exact Or.inr ⟨p, rfl, rfl⟩
    · cases h

theorem EntsStep.refl (l : Live) : EntsStep l l := Or.inl ⟨rfl, rfl⟩

theorem EntsStep.congr {l l1 l2 : Live} (h : EntsStep l l1) (he : l2.ents = l1.ents) (hn : l2.next = l1.next) :
    EntsStep l l2 := by
  rcases h with ⟨a, b⟩ | ⟨p, a, b⟩
  · exact Or.inl ⟨he.trans a, hn.trans b⟩
  · exact Or.inr ⟨p, he.trans a, hn.trans b⟩

theorem EntsStep.congrL {l0 l l1 : Live} (h : EntsStep l l1) (he : l.ents = l0.ents) (hn : l.next = l0.next) :
    EntsStep l0 l1 := by
  rcases h with ⟨a, b⟩ | ⟨p, a, b⟩
  · exact Or.inl ⟨a.trans he, b.trans hn⟩
  · exact Or.inr ⟨p, by rw [a, he, hn], by rw [b, hn]⟩

theorem entsStep_ite {l : Live} (c : Prop) [Decidable c] (a b : Live × Obs) (ha : EntsStep l a.1)
    (hb : EntsStep l b.1) : EntsStep l (if c then a else b).1 := by
  split <;> assumption

theorem lStep_ents (l : Live) (op : Op) (hfl : opFlat op = true) (hf : fragOkC op = true) :
    EntsStep l (lStep l op).1 := by
  cases op with
  | «open» slot p fl =>
    simp only [lStep]
    cases ho : sOpen (sDropSlot l slot) p fl with
    | error e => exact Or.inl ⟨rfl, rfl⟩
    | ok r =>
      obtain ⟨l', id⟩ := r
      exact ((sOpen_ents ho).congr rfl rfl).congrL rfl rfl
  | close slot => simp only [lStep]; split <;> exact Or.inl ⟨rfl, rfl⟩
  | writeAt slot off d =>
    simp only [lStep]
    split
    · exact EntsStep.refl l
    · split
      · exact EntsStep.refl l
      · exact Or.inl ⟨sWrite_ents _ _ _ _, sWrite_next _ _ _ _⟩
  | readAt slot off len => simp only [lStep]; split; exact EntsStep.refl l; split <;> exact EntsStep.refl l
  | write slot d =>
    simp only [lStep]
    split
    · exact EntsStep.refl l
    · split
      · exact EntsStep.refl l
      · exact Or.inl ⟨sWrite_ents _ _ _ _, sWrite_next _ _ _ _⟩
  | read slot len =>
    simp only [lStep]
    split
    · exact EntsStep.refl l
    · split
      · exact EntsStep.refl l
      · exact Or.inl ⟨rfl, rfl⟩
  | seek slot whence off =>
    simp only [lStep]
    cases sGetSlot l slot with
    | none => exact EntsStep.refl l
    | some h => exact entsStep_ite _ _ _ (EntsStep.refl l) (Or.inl ⟨rfl, rfl⟩)
  | setLen slot n =>
    simp only [lStep]
    split
    · exact EntsStep.refl l
    · split
      · exact EntsStep.refl l
      · exact Or.inl ⟨rfl, rfl⟩
  | syncAll slot => simp only [lStep]; split <;> exact EntsStep.refl l
  | syncData slot => simp only [lStep]; split <;> exact EntsStep.refl l
  | hmeta slot => simp only [lStep]; split <;> exact EntsStep.refl l
  | mkdir p => simp [opFlat] at hfl
  | syncDir p => simp only [lStep]; split <;> exact EntsStep.refl l
  | readDir p => simp only [lStep]; split <;> exact EntsStep.refl l
  | stat p => simp only [lStep]; repeat' split
              all_goals exact EntsStep.refl l
  | «exists» p => exact EntsStep.refl l
  | readFile p => simp only [lStep]; repeat' split
                  all_goals exact EntsStep.refl l
  | writeFile p d =>
    simp only [lStep]
    cases ho : sOpen l p { w := true, c := true, t := true } with
    | error e => exact EntsStep.refl l
    | ok r =>
      obtain ⟨l', id⟩ := r
      exact (sOpen_ents ho).congr (sWrite_ents _ _ _ _) (sWrite_next _ _ _ _)
  | dump pool => exact EntsStep.refl l
  | mkdirAll p => simp [fragOkC] at hf
  | rmdir p => simp [fragOkC] at hf
  | rmdirAll p => simp [fragOkC] at hf
  | unlink p => simp [fragOkC] at hf
  | rename p q => simp [fragOkC] at hf
  | crash => simp [fragOkC] at hf

theorem IdsBelow.step {l l' : Live} (h : IdsBelow l) (hs : EntsStep l l') : IdsBelow l' := by
  rcases hs with ⟨a, b⟩ | ⟨p, a, b⟩
  · intro kv hkv; rw [a] at hkv; rw [b]; exact h kv hkv
  · intro kv hkv
    rw [a] at hkv; rw [b]
    rcases List.mem_append.mp hkv with h1 | h1
    · have := h kv (List.mem_filter.mp h1).1; omega
    · simp only [List.mem_singleton] at h1; subst h1; simp [entId]

theorem touchUpd_step {l l' : Live} (h : IdsBelow l) (hs : EntsStep l l') : touchUpd l l' [] = [] := by
  apply touchUpd_nil
  rcases hs with ⟨a, _⟩ | ⟨p, a, _⟩
  · intro qe hqe; rw [a] at hqe; exact Or.inl hqe
  · intro qe hqe
    rw [a] at hqe
    rcases List.mem_append.mp hqe with h1 | h1
    · exact Or.inl (List.mem_filter.mp h1).1
    · simp only [List.mem_singleton] at h1
      subst h1
      right
      intro kv hkv he
      have := h kv hkv
      rw [he] at this
      simp [entId] at this

theorem sFsync_touched (l : Live) (sp : Spec) (id : Nat) : (sFsync l sp id).touched = sp.touched := rfl

theorem sSyncDir_touched (l : Live) (sp : Spec) (p : Path) : (sSyncDir l sp p).touched = sp.touched := by
  unfold sSyncDir; split <;> rfl

theorem dStep_touched (sp : Spec) (l l' : Live) (op : Op) (o : Obs) (ora : Ora) :
    (dStep sp l l' op o ora).touched = sp.touched := by
  cases op <;> simp only [dStep] <;> (repeat' split) <;>
    first | rfl | exact sFsync_touched _ _ _ | exact sSyncDir_touched _ _ _

theorem sStep_touched (sp : Spec) (op : Op) (ora : Ora) (hc : op ≠ .crash) :
    (sStep {} sp op ora).1.touched = sp.touched := by
  cases op <;> first | exact absurd rfl hc | exact dStep_touched _ _ _ _ _ _

theorem sSyncDirBoth_nil (l : Live) (sp : Spec) (p : Path) (ht : sp.touched = []) :
    sSyncDirBoth l sp p = sSyncDir l sp p := by
  unfold sSyncDirBoth sSyncDir
  cases dirIdAt l p with
  | none => rfl
  | some id =>
    simp only [ht, List.filter_nil, List.map_nil, List.eraseDups_nil, List.filterMap_nil, List.any_nil,
      Bool.not_false, Bool.and_true, List.append_nil, List.getLast?_nil]
    cases sp with
    | mk ll dur dents wlog touched =>
      simp only at ht
      subst ht
      rfl

/-- one step of the flat fragment: flagged and plain durable spec agree (the ghost stays empty) -/
theorem sStepFx_c (sp : Spec) (op : Op) (ht : sp.touched = []) (hI : IdsBelow sp.l)
    (hf : fragOkC op = true) (hfl : opFlat op = true) :
    sStepFx fxc {} sp op {} = sStep {} sp op {} := by
  have hnc : op ≠ .crash := fragOkC_not_crash hf
  have hl := (sStep_live sp op {} hnc).2
  have htu : touchUpd sp.l (sStep {} sp op {}).1.l sp.touched = [] := by
    rw [ht, hl]; exact touchUpd_step hI (lStep_ents sp.l op hfl hf)
  have hts : (sStep {} sp op {}).1.touched = [] := by rw [sStep_touched sp op {} hnc, ht]
  have key : ({ (sStep {} sp op {}).1 with touched := touchUpd sp.l (sStep {} sp op {}).1.l sp.touched },
      (sStep {} sp op {}).2) = sStep {} sp op {} := by
    rw [htu]
    cases hr : sStep {} sp op {} with
    | mk s1 o =>
      rw [hr] at hts
      cases s1 with
      | mk ll dur dents wlog touched => simp only at hts; subst hts; rfl
  cases op with
  | syncDir p =>
    show ({ (sSyncDirBoth sp.l sp p) with l := (lStep sp.l (.syncDir p)).1 }, (lStep sp.l (.syncDir p)).2) = _
    rw [sSyncDirBoth_nil sp.l sp p ht]
    rfl
  | crash => exact absurd rfl hnc
  | _ => exact key

theorem flat_spec_states : ∀ (h : List Op) (sp : Spec), sp.touched = [] → IdsBelow sp.l →
    flatRunC h = true →
    sRunStFx fxc {} sp (quiet h) = sRunSt {} sp (quiet h) := by
  intro h
  induction h with
  | nil => intro sp _ _ _; rfl
  | cons op r ih =>
    intro sp ht hI hf
    simp only [flatRunC, List.all_cons, Bool.and_eq_true] at hf
    obtain ⟨⟨hfo, hfl⟩, hfr⟩ := hf
    have hnc : op ≠ .crash := fragOkC_not_crash hfo
    have hl := (sStep_live sp op {} hnc).2
    simp only [quiet, List.map_cons, sRunStFx, sRunSt]
    rw [sStepFx_c sp op ht hI hfo hfl]
    apply ih
    · rw [sStep_touched sp op {} hnc, ht]
    · rw [hl]; exact hI.step (lStep_ents sp.l op hfl hfo)
    · simpa [flatRunC] using hfr

theorem flatRun_flatRunC : ∀ (h : List Op) (l : Live), flatRun l h = true → flatRunC h = true := by
  intro h
  induction h with
  | nil => intro _ _; rfl
  | cons op r ih =>
    intro l hf
    simp only [flatRun, Bool.and_eq_true] at hf
    simp only [flatRunC, List.all_cons, Bool.and_eq_true]
    exact ⟨⟨fragOk_fragOkC hf.1.1, hf.1.2⟩, by simpa [flatRunC] using ih _ hf.2⟩

theorem flatRun_fragRun : ∀ (h : List Op) (l : Live), flatRun l h = true → fragRun l h = true := by
  intro h
  induction h with
  | nil => intro _ _; rfl
  | cons op r ih =>
    intro l hf
    simp only [flatRun, Bool.and_eq_true] at hf
    simp only [fragRun, Bool.and_eq_true]
    exact ⟨hf.1.1, ih _ hf.2⟩

theorem runStFx_append (fx : Fixes) (cfg : Cfg) : ∀ (a b : List (Op × Ora)) (st : St),
    runStFx fx cfg st (a ++ b) = runStFx fx cfg (runStFx fx cfg st a) b := by
  intro a
  induction a with
  | nil => intro b st; rfl
  | cons x r ih => intro b st; obtain ⟨op, ora⟩ := x; simp only [List.cons_append, runStFx]; exact ih b _

theorem sRunStFx_append (fx : Fixes) (cfg : Cfg) : ∀ (a b : List (Op × Ora)) (sp : Spec),
    sRunStFx fx cfg sp (a ++ b) = sRunStFx fx cfg (sRunStFx fx cfg sp a) b := by
  intro a
  induction a with
  | nil => intro b sp; rfl
  | cons x r ih => intro b sp; obtain ⟨op, ora⟩ := x; simp only [List.cons_append, sRunStFx]; exact ih b _

theorem idsBelow_init : IdsBelow Spec.init.l := by
  intro kv hkv; simp [Spec.init] at hkv

end TV.Fs
