/-
  Invariant behind `never_invents`: every byte stored in a persisted file or carried by a pending
  write is 0 or a byte that some write call supplied.
-/
import TvFs.Model.Fs

namespace TV.Fs

def okB (W : List Nat) (b : Nat) : Prop := b = 0 ∨ b ∈ W
def OkBytes (W : List Nat) (l : Bytes) : Prop := ∀ b ∈ l, okB W b

def popData : POp → Bytes
  | .write _ _ d => d
  | _ => []

def FilesOk (W : List Nat) (files : List (Path × Bytes)) : Prop := ∀ kv ∈ files, OkBytes W kv.2
def PendOk (W : List Nat) (pend : List POp) : Prop := ∀ op ∈ pend, OkBytes W (popData op)
def GoodFs (W : List Nat) (s : Fs) : Prop := FilesOk W s.files ∧ PendOk W s.pending

theorem okBytes_nil (W : List Nat) : OkBytes W [] := by intro b hb; cases hb

theorem getD_ok {W : List Nat} {l : Bytes} (h : OkBytes W l) (i : Nat) : okB W (l.getD i 0) := by
  rw [List.getD_eq_getElem?_getD]
  cases hi : l[i]? with
  | none => exact Or.inl rfl
  | some x => exact h x (List.mem_of_getElem? hi)

theorem resize_ok {W : List Nat} {c : Bytes} (h : OkBytes W c) (n : Nat) : OkBytes W (resize c n) := by
  intro b hb
  simp only [resize, List.mem_map] at hb
  obtain ⟨i, _, rfl⟩ := hb
  exact getD_ok h i

theorem writeAt_ok {W : List Nat} {c d : Bytes} (hc : OkBytes W c) (hd : OkBytes W d) (off : Nat) :
    OkBytes W (writeAt c off d) := by
  intro b hb
  simp only [writeAt, List.mem_map] at hb
  obtain ⟨i, _, rfl⟩ := hb
  split
  · exact getD_ok hd _
  · exact getD_ok hc _

theorem overlayClip_ok {W : List Nat} {c d : Bytes} (hc : OkBytes W c) (hd : OkBytes W d) (off : Nat) :
    OkBytes W (overlayClip c off d) := by
  intro b hb
  simp only [overlayClip, List.mem_map] at hb
  obtain ⟨i, _, rfl⟩ := hb
  split
  · exact getD_ok hd _
  · exact getD_ok hc _

theorem replicate_ok (W : List Nat) (n : Nat) : OkBytes W (List.replicate n 0) := by
  intro b hb
  exact Or.inl (List.eq_of_mem_replicate hb)

theorem take_ok {W : List Nat} {d : Bytes} (h : OkBytes W d) (n : Nat) : OkBytes W (d.take n) :=
  fun b hb => h b (List.mem_of_mem_take hb)

theorem alookup_mem {p : Path} {c : Bytes} : ∀ {l : List (Path × Bytes)}, alookup p l = some c → (p, c) ∈ l := by
  intro l
  induction l with
  | nil => intro h; simp [alookup] at h
  | cons kv r ih =>
    obtain ⟨k, v⟩ := kv
    intro h
    by_cases hk : k = p
    · subst hk; simp [alookup] at h; subst h; exact List.mem_cons_self
    · simp [alookup, hk] at h; exact List.mem_cons_of_mem _ (ih h)

theorem alookup_ok {W : List Nat} {l : List (Path × Bytes)} (h : FilesOk W l) {p : Path} {c : Bytes}
    (hl : alookup p l = some c) : OkBytes W c := h _ (alookup_mem hl)

theorem getD_alookup_ok {W : List Nat} {l : List (Path × Bytes)} (h : FilesOk W l) (p : Path) :
    OkBytes W ((alookup p l).getD []) := by
  cases hl : alookup p l with
  | none => exact okBytes_nil W
  | some c => exact alookup_ok h hl

theorem ainsert_ok {W : List Nat} {l : List (Path × Bytes)} (h : FilesOk W l) (p : Path) {c : Bytes}
    (hc : OkBytes W c) : FilesOk W (ainsert p c l) := by
  unfold ainsert
  split
  · intro kv hkv
    simp only [List.mem_map] at hkv
    obtain ⟨kv0, h0, rfl⟩ := hkv
    split
    · exact hc
    · exact h _ h0
  · intro kv hkv
    rcases List.mem_append.mp hkv with h1 | h1
    · exact h _ h1
    · simp at h1; subst h1; exact hc

theorem aerase_ok {W : List Nat} {l : List (Path × Bytes)} (h : FilesOk W l) (p : Path) :
    FilesOk W (aerase p l) := fun kv hkv => h _ ((List.mem_filter.mp hkv).1)

theorem filter_ok {W : List Nat} {l : List (Path × Bytes)} (h : FilesOk W l) (f : Path × Bytes → Bool) :
    FilesOk W (l.filter f) := fun kv hkv => h _ ((List.mem_filter.mp hkv).1)

theorem append_empty_ok {W : List Nat} {l : List (Path × Bytes)} (h : FilesOk W l) (p : Path) :
    FilesOk W (l ++ [(p, [])]) := by
  intro kv hkv
  rcases List.mem_append.mp hkv with h1 | h1
  · exact h _ h1
  · simp at h1; subst h1; exact okBytes_nil W

/-- `apply_op_to_persisted` keeps the persisted bytes within `W ∪ {0}` and never touches the log -/
theorem applyOp_files {W : List Nat} (s : Fs) (op : POp) (hf : FilesOk W s.files)
    (hd : OkBytes W (popData op)) : FilesOk W (applyOp s op).files := by
  cases op with
  | createFile p => simp only [applyOp]; split; exact hf; exact append_empty_ok hf p
  | createDir p => exact hf
  | write p off d =>
    simp only [applyOp]
    split
    · next c hc => exact ainsert_ok hf p (writeAt_ok (alookup_ok hf hc) hd off)
    · exact hf
  | setLen p n =>
    simp only [applyOp]
    split
    · next c hc => exact ainsert_ok hf p (resize_ok (alookup_ok hf hc) n)
    · exact hf
  | rename src dst =>
    simp only [applyOp]
    split
    · next c hc => exact ainsert_ok (aerase_ok hf src) dst (alookup_ok hf hc)
    · split <;> exact hf
  | removeFile p => exact aerase_ok hf p
  | removeDir p => exact hf

theorem applyOp_pending (s : Fs) (op : POp) : (applyOp s op).pending = s.pending := by
  cases op <;> simp only [applyOp] <;> (repeat' split) <;> rfl

theorem foldl_applyOp_good {W : List Nat} (ops : List POp) :
    ∀ (s : Fs), GoodFs W s → PendOk W ops → GoodFs W (ops.foldl applyOp s) := by
  induction ops with
  | nil => intro s h _; exact h
  | cons o r ih =>
    intro s h hops
    apply ih
    · exact ⟨applyOp_files s o h.1 (hops o List.mem_cons_self), by rw [applyOp_pending]; exact h.2⟩
    · exact fun op hop => hops op (List.mem_cons_of_mem _ hop)

theorem pendOk_filter {W : List Nat} {l : List POp} (h : PendOk W l) (f : POp → Bool) : PendOk W (l.filter f) :=
  fun op hop => h op ((List.mem_filter.mp hop).1)

theorem pendOk_append {W : List Nat} {l : List POp} (h : PendOk W l) {op : POp} (ho : OkBytes W (popData op)) :
    PendOk W (l ++ [op]) := by
  intro o hmem
  rcases List.mem_append.mp hmem with h1 | h1
  · exact h o h1
  · simp at h1; subst h1; exact ho

theorem push_good {W : List Nat} {s : Fs} (h : GoodFs W s) {op : POp} (ho : OkBytes W (popData op)) :
    GoodFs W { s with pending := s.pending ++ [op] } := ⟨h.1, pendOk_append h.2 ho⟩

theorem syncFile_good {W : List Nat} {s s' : Fs} (p : Path) (h : GoodFs W s) (hs : syncFile s p = .ok s') :
    GoodFs W s' := by
  unfold syncFile at hs
  split at hs
  · cases hs
  · simp only [Except.ok.injEq] at hs
    subst hs
    apply foldl_applyOp_good
    · constructor
      · show FilesOk W (if (alookup p s.files).isSome then s else { s with files := s.files ++ [(p, [])] }).files
        split
        · exact h.1
        · exact append_empty_ok h.1 p
      · exact pendOk_filter h.2 _
    · exact pendOk_filter h.2 _

theorem syncDirStep_good {W : List Nat} (path : Path) (s : Fs) (op : POp) (h : GoodFs W s)
    (ho : OkBytes W (popData op)) : GoodFs W (syncDirStep path s op) := by
  unfold syncDirStep
  exact ⟨applyOp_files _ op h.1 ho, by rw [applyOp_pending]; exact h.2⟩

theorem foldl_syncDirStep_good {W : List Nat} (path : Path) (ops : List POp) :
    ∀ (s : Fs), GoodFs W s → PendOk W ops → GoodFs W (ops.foldl (syncDirStep path) s) := by
  induction ops with
  | nil => intro s h _; exact h
  | cons o r ih =>
    intro s h hops
    apply ih
    · exact syncDirStep_good path s o h (hops o List.mem_cons_self)
    · exact fun op hop => hops op (List.mem_cons_of_mem _ hop)

theorem syncDir_good {W : List Nat} {s s' : Fs} (p : Path) (h : GoodFs W s) (hs : syncDir s p = .ok s') :
    GoodFs W s' := by
  unfold syncDir at hs
  split at hs
  · cases hs
  · simp only [Except.ok.injEq] at hs
    subst hs
    apply foldl_syncDirStep_good
    · exact ⟨h.1, pendOk_filter h.2 _⟩
    · exact pendOk_filter h.2 _

theorem mkdir_good {W : List Nat} {s s' : Fs} (p : Path) (h : GoodFs W s) (hs : mkdir s p = .ok s') :
    GoodFs W s' := by
  unfold mkdir at hs
  split at hs
  · cases hs
  · split at hs
    · cases hs
    · cases hs; exact push_good h (okBytes_nil W)

theorem rmdir_good {W : List Nat} {s s' : Fs} (p : Path) (h : GoodFs W s) (hs : rmdir s p = .ok s') :
    GoodFs W s' := by
  unfold rmdir at hs
  split at hs
  · cases hs
  · split at hs
    · cases hs
    · cases hs; exact push_good h (okBytes_nil W)

theorem unlink_good {W : List Nat} {s s' : Fs} (p : Path) (h : GoodFs W s) (hs : unlink s p = .ok s') :
    GoodFs W s' := by
  unfold unlink at hs
  split at hs
  · cases hs
  · cases hs; exact push_good h (okBytes_nil W)

theorem rename_good {W : List Nat} {s s' : Fs} (p q : Path) (h : GoodFs W s) (hs : rename s p q = .ok s') :
    GoodFs W s' := by
  unfold rename at hs
  repeat' split at hs
  all_goals first | (cases hs; done) | (cases hs; exact push_good h (okBytes_nil W))

theorem openCreate_good {W : List Nat} {s s' : Fs} (p : Path) (fl : Flags) (h : GoodFs W s)
    (hs : openCreate s p fl = .ok s') : GoodFs W s' := by
  unfold openCreate at hs
  repeat' split at hs
  all_goals first | (cases hs; done) | (cases hs; exact h) | (cases hs; exact push_good h (okBytes_nil W))

theorem openFs_good {W : List Nat} {s s' : Fs} (p : Path) (fl : Flags) (h : GoodFs W s)
    (hs : openFs s p fl = .ok s') : GoodFs W s' := by
  unfold openFs at hs
  split at hs
  · cases hs
  · next s1 h1 =>
    have g1 := openCreate_good p fl h h1
    simp only [Except.ok.injEq] at hs
    subst hs
    split
    · exact push_good g1 (okBytes_nil W)
    · exact g1

theorem writeFs_good {W : List Nat} {s : Fs} (p : Path) (off : Nat) {d : Bytes} (coin : Bool)
    (h : GoodFs W s) (hd : OkBytes W d) : GoodFs W (writeFs s p off d coin) := by
  unfold writeFs
  have g1 : GoodFs W (if d.isEmpty then s else { s with pending := s.pending ++ [.write p off d] }) := by
    split
    · exact h
    · exact push_good h hd
  simp only
  split
  · split
    · next s2 hs2 => exact syncFile_good p g1 hs2
    · exact g1
  · exact g1

theorem setLenFs_good {W : List Nat} {s : Fs} (p : Path) (n : Nat) (coin : Bool)
    (h : GoodFs W s) : GoodFs W (setLenFs s p n coin) := by
  unfold setLenFs
  have g1 : GoodFs W { s with pending := s.pending ++ [.setLen p n] } := push_good h (okBytes_nil W)
  simp only
  split
  · split
    · next s2 hs2 => exact syncFile_good p g1 hs2
    · exact g1
  · exact g1

theorem mkdirAllRun_good {W : List Nat} (l : List Path) :
    ∀ {s s' : Fs}, GoodFs W s → mkdirAllRun s l = .ok s' → GoodFs W s' := by
  induction l with
  | nil => intro s s' h hs; simp only [mkdirAllRun, Except.ok.injEq] at hs; subst hs; exact h
  | cons d r ih =>
    intro s s' h hs
    simp only [mkdirAllRun] at hs
    split at hs
    · exact ih h hs
    · split at hs
      · next s1 h1 => exact ih (mkdir_good d h h1) hs
      · cases hs

theorem rmContents_good {W : List Nat} (fuel : Nat) :
    ∀ {s : Fs} (path : Path), GoodFs W s → GoodFs W (rmContents fuel s path).1 := by
  induction fuel with
  | zero => intro s path h; exact h
  | succ f ih =>
    intro s path h
    simp only [rmContents]
    -- the fold keeps the invariant on the state component of its accumulator
    have key : ∀ (names : List Nat) (acc : Fs × Option Err), GoodFs W acc.1 →
        GoodFs W (names.foldl (fun acc name =>
          match acc.2 with
          | some _ => acc
          | none =>
            let s1 := acc.1
            let e := path ++ [name]
            if dirExists s1 e then
              let r := rmContents f s1 e
              match r.2 with
              | some er => (r.1, some er)
              | none =>
                match rmdir r.1 e with
                | .ok s2 => (s2, none)
                | .error er => (r.1, some er)
            else if fileExists s1 e then
              match unlink s1 e with
              | .ok s2 => (s2, none)
              | .error er => (s1, some er)
            else (s1, none)) acc).1 := by
      intro names
      induction names with
      | nil => intro acc hacc; exact hacc
      | cons nm r ihn =>
        intro acc hacc
        simp only [List.foldl_cons]
        apply ihn
        split
        · exact hacc
        · split
          · have g := ih (path ++ [nm]) hacc
            split
            · exact g
            · split
              · next s2 h2 => exact rmdir_good _ g h2
              · exact g
          · split
            · split
              · next s2 h2 => exact unlink_good _ hacc h2
              · exact hacc
            · exact hacc
    exact key _ (s, none) h

theorem rmdirAll_good {W : List Nat} {s : Fs} (p : Path) (h : GoodFs W s) : GoodFs W (rmdirAll s p).1 := by
  unfold rmdirAll
  split
  · exact h
  · have g := rmContents_good (W := W) 8 p h
    simp only
    split
    · exact g
    · split
      · next s2 h2 => exact rmdir_good p g h2
      · exact g

theorem tornCollect_ok {W : List Nat} (syn : List Path) (b : Nat) :
    ∀ (pend : List POp) (ora : List Nat), PendOk W pend →
      ∀ x ∈ tornCollect syn b pend ora, OkBytes W x.2.2 := by
  intro pend
  induction pend with
  | nil =>
    intro ora _ x hx
    have e : tornCollect syn b [] ora = [] := by cases ora <;> rfl
    rw [e] at hx; cases hx
  | cons o r ih =>
    intro ora hp x hx
    have hr : PendOk W r := fun op hop => hp op (List.mem_cons_of_mem _ hop)
    cases o with
    | write p off d =>
      simp only [tornCollect] at hx
      split at hx
      · exact ih _ hr x hx
      · split at hx
        · exact ih _ hr x hx
        · split at hx
          · exact ih _ hr x hx
          · rcases List.mem_cons.mp hx with h1 | h1
            · subst h1
              exact take_ok (hp _ List.mem_cons_self) _
            · exact ih _ hr x h1
    | createFile p => simp only [tornCollect] at hx; exact ih _ hr x hx
    | createDir p => simp only [tornCollect] at hx; exact ih _ hr x hx
    | setLen p n => simp only [tornCollect] at hx; exact ih _ hr x hx
    | rename a b => simp only [tornCollect] at hx; exact ih _ hr x hx
    | removeFile p => simp only [tornCollect] at hx; exact ih _ hr x hx
    | removeDir p => simp only [tornCollect] at hx; exact ih _ hr x hx

theorem tornApply_ok {W : List Nat} :
    ∀ (tw : List (Path × Nat × Bytes)) (files : List (Path × Bytes)), FilesOk W files →
      (∀ x ∈ tw, OkBytes W x.2.2) → FilesOk W (tornApply files tw) := by
  intro tw
  induction tw with
  | nil => intro files hf _; exact hf
  | cons x r ih =>
    intro files hf hx
    obtain ⟨p, off, d⟩ := x
    have hr : ∀ y ∈ r, OkBytes W y.2.2 := fun y hy => hx y (List.mem_cons_of_mem _ hy)
    simp only [tornApply]
    split
    · next c hc =>
      exact ih _ (ainsert_ok hf p (writeAt_ok (alookup_ok hf hc) (hx _ List.mem_cons_self) off)) hr
    · exact ih _ hf hr

theorem crash_good {W : List Nat} {s : Fs} (b : Option Nat) (t : List Nat) (h : GoodFs W s) :
    GoodFs W (crash s b t) := by
  unfold crash
  refine ⟨?_, fun op hop => by cases hop⟩
  apply filter_ok
  cases b with
  | none => exact h.1
  | some bs => exact tornApply_ok _ _ h.1 (tornCollect_ok _ _ _ _ h.2)

/-- the bytes an op hands to the filesystem -/
def opData : Op → Bytes
  | .writeAt _ _ d => d
  | .write _ d => d
  | .writeFile _ d => d
  | _ => []

theorem ofExcept_fs {W : List Nat} {st : St} {r : Except Err Fs} (h : GoodFs W st.fs)
    (hr : ∀ s', r = .ok s' → GoodFs W s') : GoodFs W (ofExcept st r).1.fs := by
  cases r with
  | ok fs => exact hr fs rfl
  | error e => exact h

theorem setSlot_fs (st : St) (i : Nat) (h : Handle) : (setSlot st i h).fs = st.fs := rfl
theorem dropSlot_fs (st : St) (i : Nat) : (dropSlot st i).fs = st.fs := rfl

theorem step_good {W : List Nat} (cfg : Cfg) (st : St) (op : Op) (ora : Ora) (h : GoodFs W st.fs)
    (hd : OkBytes W (opData op)) : GoodFs W (step cfg st op ora).1.fs := by
  cases op with
  | «open» slot p fl =>
    simp only [step]
    split
    · exact h
    · next fs1 h1 => exact openFs_good p fl (by exact h) h1
  | close slot => simp only [step]; split <;> exact h
  | writeAt slot off d =>
    simp only [step]
    split
    · exact h
    · split
      · exact h
      · exact writeFs_good _ off ora.coin h hd
  | readAt slot off len => simp only [step]; split; exact h; split <;> exact h
  | write slot d =>
    simp only [step]
    split
    · exact h
    · split
      · exact h
      · exact writeFs_good _ _ ora.coin h hd
  | read slot len => simp only [step]; split; exact h; split <;> exact h
  | seek slot whence off => simp only [step]; repeat' split
                            all_goals exact h
  | setLen slot n =>
    simp only [step]
    split
    · exact h
    · split
      · exact h
      · exact setLenFs_good _ n ora.coin h
  | syncAll slot =>
    simp only [step]
    split
    · exact h
    · exact ofExcept_fs h (fun s' hs => syncFile_good _ h hs)
  | syncData slot =>
    simp only [step]
    split
    · exact h
    · exact ofExcept_fs h (fun s' hs => syncFile_good _ h hs)
  | hmeta slot => simp only [step]; split <;> exact h
  | mkdir p => exact ofExcept_fs h (fun s' hs => mkdir_good p h hs)
  | mkdirAll p => exact ofExcept_fs h (fun s' hs => mkdirAllRun_good _ h hs)
  | rmdir p => exact ofExcept_fs h (fun s' hs => rmdir_good p h hs)
  | rmdirAll p => exact rmdirAll_good p h
  | unlink p => exact ofExcept_fs h (fun s' hs => unlink_good p h hs)
  | rename p q => exact ofExcept_fs h (fun s' hs => rename_good p q h hs)
  | syncDir p => exact ofExcept_fs h (fun s' hs => syncDir_good p h hs)
  | readDir p => simp only [step]; split <;> exact h
  | stat p => simp only [step]; split; exact h; split <;> exact h
  | «exists» p => exact h
  | readFile p => simp only [step]; split <;> exact h
  | writeFile p d =>
    simp only [step]
    split
    · exact h
    · next fs1 h1 => exact writeFs_good p 0 ora.coin (openFs_good p _ h h1) hd
  | dump pool => exact h
  | crash => exact crash_good _ _ h

theorem runSt_good {W : List Nat} (cfg : Cfg) (h : List (Op × Ora)) :
    ∀ (st : St), GoodFs W st.fs → (∀ x ∈ h, OkBytes W (opData x.1)) → GoodFs W (runSt cfg st h).fs := by
  induction h with
  | nil => intro st hg _; exact hg
  | cons x r ih =>
    intro st hg hd
    obtain ⟨op, ora⟩ := x
    simp only [runSt]
    apply ih
    · exact step_good cfg st op ora hg (hd _ List.mem_cons_self)
    · exact fun y hy => hd y (List.mem_cons_of_mem _ hy)

theorem foldl_contentStep_ok {W : List Nat} (s : Fs) (cp : Path) (pend : List POp) :
    ∀ (buf : Bytes), OkBytes W buf → PendOk W pend → OkBytes W (pend.foldl (contentStep s cp) buf) := by
  induction pend with
  | nil => intro buf hb _; exact hb
  | cons o r ih =>
    intro buf hb hp
    have hr : PendOk W r := fun op hop => hp op (List.mem_cons_of_mem _ hop)
    simp only [List.foldl_cons]
    apply ih _ _ hr
    cases o with
    | write p off d =>
      simp only [contentStep]
      split
      · exact overlayClip_ok hb (hp _ List.mem_cons_self) off
      · exact hb
    | createFile p => exact hb
    | createDir p => exact hb
    | setLen p n => exact hb
    | rename a b => exact hb
    | removeFile p => exact hb
    | removeDir p => exact hb

theorem content_ok {W : List Nat} {s : Fs} (h : GoodFs W s) (p : Path) : OkBytes W (content s p) := by
  unfold content
  exact foldl_contentStep_ok s _ _ _ (overlayClip_ok (replicate_ok W _) (getD_alookup_ok h.1 _) 0) h.2

theorem init_good (W : List Nat) : GoodFs W St.init.fs := by
  have e1 : St.init.fs.files = [] := rfl
  have e2 : St.init.fs.pending = [] := rfl
  constructor
  · intro kv hkv; rw [e1] at hkv; cases hkv
  · intro op hop; rw [e2] at hop; cases hop

end TV.Fs
