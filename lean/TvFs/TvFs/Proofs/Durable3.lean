/-
  `dsim_step`: every op of the flat fragment preserves the durable relation `D`.
-/
import TvFs.Proofs.Durable2

namespace TV.Fs

/-- the log gained only data ops: nothing the durable relation looks at changed -/
structure KeepLike (fs fs' : Fs) : Prop where
  files : fs'.files = fs.files
  synced : fs'.synced = fs.synced
  dirs : fs'.dirs = fs.dirs
  cf : ∀ q, hasCreateFile fs'.pending q = hasCreateFile fs.pending q
  cd : ∀ q, hasCreateDir fs'.pending q = hasCreateDir fs.pending q

theorem KeepLike.refl (fs : Fs) : KeepLike fs fs := ⟨rfl, rfl, rfl, fun _ => rfl, fun _ => rfl⟩

theorem KeepLike.push_write (fs : Fs) (p : Path) (off : Nat) (d : Bytes) : KeepLike fs (push fs (.write p off d)) := by
  refine ⟨rfl, rfl, rfl, ?_, ?_⟩
  · intro q
    show hasCreateFile (fs.pending ++ [_]) q = _
    rw [hasCreateFile_push]
    have : (POp.write p off d == POp.createFile q) = false := by rw [beq_eq_false_iff_ne]; intro e; cases e
    simp [this]
  · intro q
    show hasCreateDir (fs.pending ++ [_]) q = _
    rw [hasCreateDir_push]
    have : (POp.write p off d == POp.createDir q) = false := by rw [beq_eq_false_iff_ne]; intro e; cases e
    simp [this]

theorem KeepLike.push_setLen (fs : Fs) (p : Path) (n : Nat) : KeepLike fs (push fs (.setLen p n)) := by
  refine ⟨rfl, rfl, rfl, ?_, ?_⟩
  · intro q
    show hasCreateFile (fs.pending ++ [_]) q = _
    rw [hasCreateFile_push]
    have : (POp.setLen p n == POp.createFile q) = false := by rw [beq_eq_false_iff_ne]; intro e; cases e
    simp [this]
  · intro q
    show hasCreateDir (fs.pending ++ [_]) q = _
    rw [hasCreateDir_push]
    have : (POp.setLen p n == POp.createDir q) = false := by rw [beq_eq_false_iff_ne]; intro e; cases e
    simp [this]

theorem KeepLike.trans {a b c : Fs} (h1 : KeepLike a b) (h2 : KeepLike b c) : KeepLike a c :=
  ⟨h2.files.trans h1.files, h2.synced.trans h1.synced, h2.dirs.trans h1.dirs,
   fun q => (h2.cf q).trans (h1.cf q), fun q => (h2.cd q).trans (h1.cd q)⟩

theorem KeepLike.writeFs (fs : Fs) (p : Path) (off : Nat) (d : Bytes) : KeepLike fs (writeFs fs p off d false) := by
  rw [writeFs_nocoin]
  split
  · exact KeepLike.refl fs
  · exact KeepLike.push_write fs p off d

theorem KeepLike.setLenFs (fs : Fs) (p : Path) (n : Nat) : KeepLike fs (setLenFs fs p n false) := by
  rw [setLenFs_nocoin]; exact KeepLike.push_setLen fs p n

theorem D.keepLike {fs fs' : Fs} {l l' : Live} {dur : List (Nat × Bytes)} {dents : List ((Nat × Nat) × Ent)}
    (h : D fs l dur dents) (hk : KeepLike fs fs') (he : l'.ents = l.ents) (hn : l'.next = l.next) :
    D fs' l' dur dents := h.keep he hn hk.files hk.synced hk.dirs hk.cf hk.cd

/-- open: the durable relation after a successful `OpenOptions::open` of `[n]` -/
theorem D.open {fs fs' : Fs} {l l' : Live} {dur : List (Nat × Bytes)} {dents : List ((Nat × Nat) × Ent)}
    (h : D fs l dur dents) (hR : FsRelX fs l) (n : Nat) (fl : Flags) (id : Nat)
    (he : openFs fs [n] fl = .ok fs') (hs : sOpen l [n] fl = .ok (l', id)) : D fs' l' dur dents := by
  unfold openFs at he
  unfold sOpen at hs
  cases hent : entAt l [n] with
  | none =>
    have hfe : fileExists fs [n] = false := by rw [hR.file, isFileAt_of_none hent]
    rw [hent] at hs
    cases hc : (fl.c || fl.n) with
    | false => simp [openCreate, hfe, hc] at he
    | true =>
      cases hpar : sParentIsDir l [n] with
      | false => simp [openCreate, hfe, hc, parentExists_eqX hR, hpar] at he
      | true =>
        have hl' : l' = createL l [n] := by
          simp [hc, hpar] at hs
          rw [← hs.1]; rfl
        subst hl'
        have hcr := h.create hR n hent
        cases htw : (fl.t && fl.w) with
        | true =>
          have he' : fs' = push (push fs (.createFile [n])) (.setLen [n] 0) := by
            simp [openCreate, hfe, hc, parentExists_eqX hR, hpar, htw] at he
            rw [← he]; simp [push]
          subst he'
          exact hcr.keepLike (KeepLike.push_setLen _ _ _) rfl rfl
        | false =>
          have he' : fs' = push fs (.createFile [n]) := by
            simp [openCreate, hfe, hc, parentExists_eqX hR, hpar, htw] at he
            rw [← he]; rfl
          subst he'
          exact hcr
  | some en =>
    rw [hent] at hs
    cases en with
    | file fid =>
      have hfe : fileExists fs [n] = true := by rw [hR.file, isFileAt_of_ent hent]
      cases hn : fl.n with
      | true => simp [openCreate, hfe, hn] at he
      | false =>
        cases htw : (fl.t && fl.w) with
        | true =>
          have he' : fs' = push fs (.setLen [n] 0) := by
            simp [openCreate, hfe, hn, htw] at he
            rw [← he]; rfl
          subst he'
          have hl' : l' = setLive l fid [] := by
            simp [hn, htw] at hs
            exact hs.1.symm
          subst hl'
          exact h.keepLike (KeepLike.push_setLen _ _ _) rfl rfl
        | false =>
          have he' : fs' = fs := by
            simp [openCreate, hfe, hn, htw] at he
            exact he.symm
          subst he'
          have hl' : l' = l := by
            simp [hn, htw] at hs
            exact hs.1.symm
          subst hl'
          exact h
    | dir did =>
      cases hn : fl.n with
      | true => simp [hn] at hs
      | false =>
        cases hc : fl.c with
        | true => simp [hn, hc] at hs
        | false => simp [hn, hc] at hs

theorem flat_path_of_len {p : Path} (h : (p.length == 1) = true) : ∃ n, p = [n] := by
  match p, h with
  | [n], _ => exact ⟨n, rfl⟩

theorem sWrite_next (l : Live) (id off : Nat) (d : Bytes) : (sWrite l id off d).next = l.next := by
  unfold sWrite; split <;> rfl

theorem wlog_dur (sp : Spec) (c : Prop) [Decidable c] (w : List (Nat × Nat × Bytes)) :
    (if c then sp else { sp with wlog := w }).dur = sp.dur := by split <;> rfl

theorem wlog_dents (sp : Spec) (c : Prop) [Decidable c] (w : List (Nat × Nat × Bytes)) :
    (if c then sp else { sp with wlog := w }).dents = sp.dents := by split <;> rfl

theorem seek_D {st : St} {l : Live} {dur : List (Nat × Bytes)} {dents : List ((Nat × Nat) × Ent)}
    (hD : D st.fs l dur dents) (slot : Nat) (hd : Handle) (sh : SHandle) (np : Int) :
    D (if np < 0 then (st, Obs.err Err.invalidinput)
        else (setSlot st slot { hd with cursor := np.toNat }, Obs.okN np.toNat)).1.fs
      (if np < 0 then (l, Obs.err Err.invalidinput)
        else (sSetSlot l slot { sh with cursor := np.toNat }, Obs.okN np.toNat)).1 dur dents := by
  by_cases h : np < 0
  · simp only [h, if_true]; exact hD
  · simp only [h, if_false]; exact hD.keepLike (KeepLike.refl _) rfl rfl

theorem dsim_step {st : St} {sp : Spec} (hR : R st sp.l) (hD : D st.fs sp.l sp.dur sp.dents) (op : Op)
    (hf : fragOk sp.l op = true) (hfl : opFlat op = true) :
    D (step {} st op {}).1.fs (sStep {} sp op {}).1.l (sStep {} sp op {}).1.dur (sStep {} sp op {}).1.dents := by
  cases op with
  | «open» slot p fl =>
    obtain ⟨n, hn⟩ := flat_path_of_len (by simpa [opFlat] using hfl)
    subst hn
    have hf' : (!((fl.c || fl.n) && isDirAt (sDropSlot sp.l slot) [n]) &&
        (!(fl.t && fl.w) || emptyOrAbsent (sDropSlot sp.l slot) [n])) = true := hf
    have h0 : FsRel (dropSlot st slot).fs (sDropSlot sp.l slot) := hR.fs.congr rfl rfl rfl
    have hD0 : D st.fs (sDropSlot sp.l slot) sp.dur sp.dents := hD.keepLike (KeepLike.refl _) rfl rfl
    simp only [step, sStep, lStep, dStep]
    cases hres : openFs (dropSlot st slot).fs [n] fl with
    | error e =>
      have hse := open_err h0 [n] fl hf' e hres
      simp only [hse]
      exact hD0
    | ok fs' =>
      obtain ⟨l', id, hso, _⟩ := open_ok h0 [n] fl hf' fs' hres
      simp only [hso]
      have := hD0.open h0.toX n fl id hres hso
      exact this.keepLike (KeepLike.refl _) rfl rfl
  | close slot =>
    simp only [step, sStep, lStep, dStep]
    rcases hR.slot slot with ⟨h1, h2⟩ | ⟨hd, sh, h1, h2, _⟩
    · simp only [h1, h2]; exact hD
    · simp only [h1, h2]; exact hD.keepLike (KeepLike.refl _) rfl rfl
  | writeAt slot off d =>
    simp only [step, sStep, lStep]
    rcases hR.slot slot with ⟨h1, h2⟩ | ⟨hd, sh, h1, h2, hr⟩
    · simp only [h1, h2, dStep]; exact hD
    · simp only [h1, h2, hr.w]
      cases hw : sh.writable with
      | false => simp only [dStep, h2]; exact hD
      | true =>
        simp only [Bool.not_true, Bool.false_eq_true, if_false, dStep, h2]
        rw [wlog_dur, wlog_dents]
        exact hD.keepLike (KeepLike.writeFs _ _ _ _) (sWrite_ents _ _ _ _) (sWrite_next _ _ _ _)
  | readAt slot off len =>
    simp only [step, sStep, lStep, dStep]
    rcases hR.slot slot with ⟨h1, h2⟩ | ⟨hd, sh, h1, h2, hr⟩
    · simp only [h1, h2]; exact hD
    · simp only [h1, h2, hr.r]
      split <;> exact hD
  | write slot d =>
    simp only [step, sStep, lStep]
    rcases hR.slot slot with ⟨h1, h2⟩ | ⟨hd, sh, h1, h2, hr⟩
    · simp only [h1, h2, dStep]; exact hD
    · simp only [h1, h2, hr.w]
      cases hw : sh.writable with
      | false => simp only [dStep, h2]; exact hD
      | true =>
        simp only [Bool.not_true, Bool.false_eq_true, if_false, dStep, h2]
        rw [wlog_dur, wlog_dents]
        exact hD.keepLike (KeepLike.writeFs _ _ _ _) (sWrite_ents _ _ _ _) (sWrite_next _ _ _ _)
  | read slot len =>
    simp only [step, sStep, lStep, dStep]
    rcases hR.slot slot with ⟨h1, h2⟩ | ⟨hd, sh, h1, h2, hr⟩
    · simp only [h1, h2]; exact hD
    · simp only [h1, h2, hr.r]
      split
      · exact hD
      · exact hD.keepLike (KeepLike.refl _) rfl rfl
  | seek slot whence off =>
    simp only [step, sStep, lStep, dStep]
    rcases hR.slot slot with ⟨h1, h2⟩ | ⟨hd, sh, h1, h2, hr⟩
    · simp only [h1, h2]; exact hD
    · simp only [h1, h2]
      rw [fileLen_of hR.fs hr.ent, hr.cur]
      exact seek_D hD slot hd sh _
  | setLen slot n =>
    simp only [step, sStep, lStep]
    rcases hR.slot slot with ⟨h1, h2⟩ | ⟨hd, sh, h1, h2, hr⟩
    · simp only [h1, h2, dStep]; exact hD
    · simp only [h1, h2, hr.w]
      cases hw : sh.writable with
      | false => simp only [dStep, h2]; exact hD
      | true =>
        simp only [Bool.not_true, Bool.false_eq_true, if_false, dStep, h2]
        exact hD.keepLike (KeepLike.setLenFs _ _ _) rfl rfl
  | syncAll slot =>
    simp only [step, sStep, lStep, dStep]
    rcases hR.slot slot with ⟨h1, h2⟩ | ⟨hd, sh, h1, h2, hr⟩
    · simp only [h1, h2]; exact hD
    · simp only [h1, h2]
      obtain ⟨n, hn⟩ := flat_of_file hD.flat hr.ent
      have hex : fileExists st.fs hd.path = true := by rw [hR.fs.file, isFileAt_of_ent hr.ent]
      cases hs : syncFile st.fs hd.path with
      | error e => simp [syncFile, hex] at hs
      | ok fs' =>
        rw [hn] at hs
        have hent := hr.ent
        rw [hn] at hent
        exact hD.syncFile hR.fs.toX hent hs
  | syncData slot =>
    simp only [step, sStep, lStep, dStep]
    rcases hR.slot slot with ⟨h1, h2⟩ | ⟨hd, sh, h1, h2, hr⟩
    · simp only [h1, h2]; exact hD
    · simp only [h1, h2]
      obtain ⟨n, hn⟩ := flat_of_file hD.flat hr.ent
      have hex : fileExists st.fs hd.path = true := by rw [hR.fs.file, isFileAt_of_ent hr.ent]
      cases hs : syncFile st.fs hd.path with
      | error e => simp [syncFile, hex] at hs
      | ok fs' =>
        rw [hn] at hs
        have hent := hr.ent
        rw [hn] at hent
        exact hD.syncFile hR.fs.toX hent hs
  | hmeta slot =>
    simp only [step, sStep, lStep, dStep]
    rcases hR.slot slot with ⟨h1, h2⟩ | ⟨hd, sh, h1, h2, hr⟩
    · simp only [h1, h2]; exact hD
    · simp only [h1, h2]; exact hD
  | syncDir p =>
    have hp : p = [] := by simpa [opFlat] using hfl
    subst hp
    have hd : isDirAt sp.l [] = true := by simp [isDirAt, entAt]
    have hde : dirExists st.fs [] = true := by rw [hR.fs.dir, hd]
    simp only [step, sStep, lStep, dStep, hd, if_true]
    cases hs : syncDir st.fs [] with
    | error e => simp [syncDir, hde] at hs
    | ok fs' =>
      obtain ⟨e1, e2⟩ := sSyncDir_root sp.l sp hD.flat hD.keys0
      simp only [ofExcept]
      rw [e1, e2]
      exact hD.syncDirRoot hR.fs.toX hs
  | stat p =>
    simp only [step, sStep, lStep, dStep]
    have e1 : (if fileExists st.fs p = true then (st, Obs.file (fileLen st.fs p))
        else if dirExists st.fs p = true then (st, Obs.dir) else (st, Obs.err Err.notfound)).1 = st := by
      split
      · rfl
      · split <;> rfl
    rw [e1]
    cases hent : entAt sp.l p with
    | none => exact hD
    | some en => cases en <;> exact hD
  | «exists» p =>
    simp only [step, sStep, lStep, dStep]
    exact hD
  | readFile p =>
    simp only [step, sStep, lStep, dStep]
    have e1 : (if fileExists st.fs p = true then (st, Obs.data (content st.fs p))
        else (st, Obs.err Err.notfound)).1 = st := by
      split <;> rfl
    rw [e1]
    cases hent : entAt sp.l p with
    | none => exact hD
    | some en => cases en <;> exact hD
  | writeFile p d =>
    obtain ⟨n, hn⟩ := flat_path_of_len (by simpa [opFlat] using hfl)
    subst hn
    have hf' : (!((true || false) && isDirAt sp.l [n]) && (!(true && true) || emptyOrAbsent sp.l [n])) = true := by
      simp only [fragOk] at hf
      simpa using hf
    simp only [step, sStep, lStep]
    cases hres : openFs st.fs [n] { w := true, c := true, t := true } with
    | error e =>
      have hse := open_err hR.fs [n] { w := true, c := true, t := true } hf' e hres
      simp only [hse, dStep]
      cases hent : entAt sp.l [n] with
      | none => exact hD
      | some en => cases en <;> exact hD
    | ok fs' =>
      obtain ⟨l', id, hso, hok⟩ := open_ok hR.fs [n] { w := true, c := true, t := true } hf' fs' hres
      simp only [hso, dStep]
      have hent' : entAt (sWrite l' id 0 d) [n] = some (.file id) := by
        rw [entAt_congr (sWrite_ents _ _ _ _)]; exact hok.ent
      simp only [hent', Bool.false_eq_true, if_false]
      rw [wlog_dur, wlog_dents]
      have hD1 := hD.open hR.fs.toX n _ id hres hso
      exact hD1.keepLike (KeepLike.writeFs _ _ _ _) (sWrite_ents _ _ _ _) (sWrite_next _ _ _ _)
  | mkdir p => simp [opFlat] at hfl
  | mkdirAll p => simp [fragOk] at hf
  | rmdir p => simp [fragOk] at hf
  | rmdirAll p => simp [fragOk] at hf
  | unlink p => simp [fragOk] at hf
  | rename p q => simp [fragOk] at hf
  | readDir p =>
    simp only [step, sStep, lStep, dStep]
    have e1 : (if dirExists st.fs p = true then (st, Obs.entries (dirEntryNames st.fs p))
        else (st, Obs.err Err.notfound)).1 = st := by
      split <;> rfl
    rw [e1]
    split <;> exact hD
  | dump pool =>
    simp only [step, sStep, lStep, dStep]
    exact hD
  | crash => simp [fragOk] at hf

end TV.Fs
