/-
  The durable relation `D` on the flat fragment and its preservation.
-/
import TvFs.Proofs.Durable
import TvFs.Proofs.RefineX

namespace TV.Fs

theorem nlookup_ninsert {α : Type} (k : Nat) (v : α) (j : Nat) : ∀ (l : List (Nat × α)),
    nlookup j (ninsert k v l) = if j = k then some v else nlookup j l := by
  intro l
  unfold ninsert
  induction l with
  | nil =>
    by_cases hjk : j = k
    · subst hjk; simp [nlookup]
    · have : ¬ k = j := fun h => hjk h.symm
      simp [nlookup, hjk, this]
  | cons kv r ih =>
    obtain ⟨a, b⟩ := kv
    rw [List.filter_cons]
    by_cases ha : a = k
    · subst ha
      simp only [bne_self_eq_false, Bool.false_eq_true, if_false]
      rw [ih]
      by_cases hj : j = a
      · simp [hj]
      · have : ¬ a = j := fun h => hj h.symm
        simp [nlookup, hj, this]
    · have ha' : (a != k) = true := by simpa using ha
      simp only [ha', if_true, List.cons_append, nlookup]
      by_cases haj : a = j
      · subst haj; simp [ha]
      · simp only [haj, if_false]; exact ih

structure D (fs : Fs) (l : Live) (dur : List (Nat × Bytes)) (dents : List ((Nat × Nat) × Ent)) : Prop where
  sync : ∀ n id, entAt l [n] = some (.file id) →
    (fs.synced.contains [n] = true ↔ dlookup (0, n) dents = some (.file id))
  cont : ∀ n id, entAt l [n] = some (.file id) → (alookup [n] fs.files).getD [] = (nlookup id dur).getD []
  pers : ∀ n, fs.synced.contains [n] = true → (alookup [n] fs.files).isSome = true
  junk : ∀ n e, dlookup (0, n) dents = some e → entAt l [n] = some e
  keys0 : ∀ k e, (k, e) ∈ dents → k.1 = 0
  dfiles : ∀ k e, (k, e) ∈ dents → ∃ id, e = Ent.file id
  slive : ∀ n, fs.synced.contains [n] = true → isFileAt l [n] = true
  cf : ∀ n, isFileAt l [n] = true → fs.synced.contains [n] = true ∨ hasCreateFile fs.pending [n] = true
  durFresh : ∀ id, (nlookup id dur).isSome = true → id < l.next
  nocd : ∀ p, hasCreateDir fs.pending p = false
  rootOnly : ∀ n, fs.dirs.contains [n] = false
  flat : Flat l

theorem Flat.congr {l l' : Live} (h : Flat l) (he : l'.ents = l.ents) : Flat l' := by
  intro p e hp; rw [he] at hp; exact h p e hp

/-- the tree changed in `live`, `handles` only; the log gained ops that are not creations -/
theorem D.keep {fs fs' : Fs} {l l' : Live} {dur : List (Nat × Bytes)} {dents : List ((Nat × Nat) × Ent)}
    (h : D fs l dur dents) (he : l'.ents = l.ents) (hn : l'.next = l.next)
    (hf : fs'.files = fs.files) (hs : fs'.synced = fs.synced) (hd : fs'.dirs = fs.dirs)
    (hcf : ∀ q, hasCreateFile fs'.pending q = hasCreateFile fs.pending q)
    (hcd : ∀ q, hasCreateDir fs'.pending q = hasCreateDir fs.pending q) : D fs' l' dur dents :=
  { sync := fun n id hp => by rw [entAt_congr he] at hp; rw [hs]; exact h.sync n id hp
    cont := fun n id hp => by rw [entAt_congr he] at hp; rw [hf]; exact h.cont n id hp
    pers := fun n hp => by rw [hs] at hp; rw [hf]; exact h.pers n hp
    junk := fun n e hp => by rw [entAt_congr he]; exact h.junk n e hp
    keys0 := h.keys0
    dfiles := h.dfiles
    slive := fun n hp => by rw [hs] at hp; rw [isFileAt_congr he]; exact h.slive n hp
    cf := fun n hp => by rw [isFileAt_congr he] at hp; rw [hs, hcf]; exact h.cf n hp
    durFresh := fun id hp => by rw [hn]; exact h.durFresh id hp
    nocd := fun p => by rw [hcd]; exact h.nocd p
    rootOnly := fun n => by rw [hd]; exact h.rootOnly n
    flat := h.flat.congr he }

theorem hasCreateFile_push (pend : List POp) (o : POp) (q : Path) :
    hasCreateFile (pend ++ [o]) q = (hasCreateFile pend q || (o == .createFile q)) := by
  simp [hasCreateFile, List.any_append]

theorem hasCreateDir_push (pend : List POp) (o : POp) (q : Path) :
    hasCreateDir (pend ++ [o]) q = (hasCreateDir pend q || (o == .createDir q)) := by
  simp [hasCreateDir, List.any_append]

/-- creating the file `[n]` -/
theorem D.create {fs : Fs} {l : Live} {dur : List (Nat × Bytes)} {dents : List ((Nat × Nat) × Ent)}
    (h : D fs l dur dents) (hR : FsRelX fs l) (n : Nat) (hp : entAt l [n] = none) :
    D (push fs (.createFile [n])) (createL l [n]) dur dents := by
  have hp0 : ([n] : Path) ≠ [] := by simp
  have hnf : isFileAt l [n] = false := isFileAt_of_none hp
  have hns : fs.synced.contains [n] = false := by
    cases hc : fs.synced.contains [n] with
    | false => rfl
    | true => rw [h.slive n hc] at hnf; cases hnf
  have hfe : fileExists fs [n] = false := by rw [hR.file, hnf]
  have hnone : alookup [n] fs.files = none := by
    rw [fileExists_noRN fs hR.noRN] at hfe
    cases hl : alookup [n] fs.files with
    | none => rfl
    | some x => simp [hl] at hfe
  have hent : ∀ m, entAt (createL l [n]) [m] = if m = n then some (.file l.next) else entAt l [m] := by
    intro m
    rw [entAt_createL l [n] [m] hp0]
    by_cases hm : m = n
    · subst hm; simp
    · have : ¬ ([m] : Path) = [n] := by simpa using hm
      simp [hm, this]
  refine ⟨?_, ?_, ?_, ?_, h.keys0, h.dfiles, ?_, ?_, ?_, ?_, h.rootOnly, ?_⟩
  · intro m id hm
    rw [hent] at hm
    show fs.synced.contains [m] = true ↔ _
    by_cases hmn : m = n
    · subst hmn
      simp only [if_true, Option.some.injEq, Ent.file.injEq] at hm
      subst hm
      constructor
      · intro hc; rw [hns] at hc; cases hc
      · intro hd
        have := h.junk m _ hd
        rw [hp] at this; cases this
    · simp only [hmn, if_false] at hm
      exact h.sync m id hm
  · intro m id hm
    rw [hent] at hm
    show (alookup [m] fs.files).getD [] = _
    by_cases hmn : m = n
    · subst hmn
      simp only [if_true, Option.some.injEq, Ent.file.injEq] at hm
      subst hm
      rw [hnone]
      cases hd : nlookup l.next dur with
      | none => rfl
      | some c =>
        have := h.durFresh l.next (by simp [hd])
        omega
    · simp only [hmn, if_false] at hm
      exact h.cont m id hm
  · exact h.pers
  · intro m e hd
    have := h.junk m e hd
    rw [hent]
    by_cases hmn : m = n
    · subst hmn; rw [hp] at this; cases this
    · simp only [hmn, if_false]; exact this
  · intro m hm
    have h1 := h.slive m hm
    simp only [isFileAt, hent]
    by_cases hmn : m = n
    · simp [hmn]
    · simp only [hmn, if_false]; exact h1
  · intro m hm
    show fs.synced.contains [m] = true ∨ hasCreateFile (fs.pending ++ [.createFile [n]]) [m] = true
    rw [hasCreateFile_push]
    simp only [isFileAt, hent] at hm
    by_cases hmn : m = n
    · subst hmn; right; simp
    · simp only [hmn, if_false] at hm
      rcases h.cf m hm with h1 | h1
      · exact Or.inl h1
      · right; simp [h1]
  · intro id hid
    have := h.durFresh id hid
    show id < l.next + 1
    omega
  · intro p
    show hasCreateDir (fs.pending ++ [.createFile [n]]) p = false
    rw [hasCreateDir_push, h.nocd p]
    have : (POp.createFile [n] == POp.createDir p) = false := by
      rw [beq_eq_false_iff_ne]; intro e; cases e
    simp [this]
  · intro p e hpe
    have : (createL l [n]).ents = (l.ents.filter fun kv => kv.1 != [n]) ++ [([n], .file l.next)] := rfl
    rw [this] at hpe
    rcases List.mem_append.mp hpe with h1 | h1
    · exact h.flat p e (List.mem_filter.mp h1).1
    · simp only [List.mem_singleton, Prod.mk.injEq] at h1
      exact ⟨⟨n, h1.1⟩, ⟨l.next, h1.2⟩⟩

theorem elookup_mem {p : Path} {e : Ent} : ∀ {l : List (Path × Ent)}, elookup p l = some e → (p, e) ∈ l := by
  intro l
  induction l with
  | nil => intro h; simp [elookup] at h
  | cons kv r ih =>
    obtain ⟨k, v⟩ := kv
    intro h
    by_cases hk : k = p
    · subst hk; simp [elookup] at h; subst h; exact List.mem_cons_self
    · simp [elookup, hk] at h; exact List.mem_cons_of_mem _ (ih h)

theorem flat_of_file {l : Live} (hf : Flat l) {p : Path} {id : Nat} (hp : entAt l p = some (.file id)) :
    ∃ n, p = [n] := by
  have hp0 := ne_root_of_entAt_file hp
  have : elookup p l.ents = some (.file id) := by simpa [entAt, hp0] using hp
  exact (hf p _ (elookup_mem this)).1

theorem any_of_filter_any {α : Type} (l : List α) (f g : α → Bool) (h : (l.filter f).any g = true) :
    l.any g = true := by
  rw [List.any_eq_true] at h ⊢
  obtain ⟨x, hx, hg⟩ := h
  exact ⟨x, (List.mem_filter.mp hx).1, hg⟩

theorem D.syncFile {fs fs' : Fs} {l : Live} {dur : List (Nat × Bytes)} {dents : List ((Nat × Nat) × Ent)}
    (h : D fs l dur dents) (hR : FsRelX fs l) {n id : Nat} (hp : entAt l [n] = some (.file id))
    (hs : syncFile fs [n] = .ok fs') : D fs' l (ninsert id (liveContent l id) dur) dents := by
  have sp := syncFile_persist hs
  have hcf : ∀ q, hasCreateFile fs'.pending q = hasCreateFile fs.pending q := by
    intro q
    rw [sp.pending]
    apply any_filter_of_imp
    intro x hx
    have : x = POp.createFile q := by simpa using hx
    subst this; rfl
  have hcd : ∀ q, hasCreateDir fs'.pending q = hasCreateDir fs.pending q := by
    intro q
    rw [sp.pending]
    apply any_filter_of_imp
    intro x hx
    have : x = POp.createDir q := by simpa using hx
    subst this; rfl
  refine ⟨?_, ?_, ?_, h.junk, h.keys0, h.dfiles, ?_, ?_, ?_, ?_, ?_, h.flat⟩
  · intro m id' hm; rw [sp.synced]; exact h.sync m id' hm
  · intro m id' hm
    rw [nlookup_ninsert]
    by_cases hmn : m = n
    · subst hmn
      have : id' = id := by rw [hp] at hm; cases hm; rfl
      subst this
      simp only [if_true, Option.getD_some]
      rw [sp.atq, Option.getD_some]
      exact hR.cont [m] id' hp
    · have hne : ([m] : Path) ≠ [n] := by simpa using hmn
      have hid : ¬ id' = id := by
        intro e; subst e
        exact hne (hR.inj [m] [n] id' hm hp)
      simp only [hid, if_false]
      rw [sp.other [m] hne]
      exact h.cont m id' hm
  · intro m hm
    rw [sp.synced] at hm
    by_cases hmn : m = n
    · subst hmn; rw [sp.atq]; rfl
    · have hne : ([m] : Path) ≠ [n] := by simpa using hmn
      rw [sp.other [m] hne]; exact h.pers m hm
  · intro m hm; rw [sp.synced] at hm; exact h.slive m hm
  · intro m hm; rw [sp.synced, hcf]; exact h.cf m hm
  · intro j hj
    rw [nlookup_ninsert] at hj
    by_cases hji : j = id
    · subst hji; exact hR.fresh [n] j hp
    · simp only [hji, if_false] at hj; exact h.durFresh j hj
  · intro q; rw [hcd]; exact h.nocd q
  · intro m; rw [sp.dirs]; exact h.rootOnly m

/-- `sync_dir /` on the spec side: the durable children of the root become the namespace -/
theorem sSyncDir_root (l : Live) (sp : Spec) (hf : Flat l) (hk : ∀ k e, (k, e) ∈ sp.dents → k.1 = 0) :
    (sSyncDir l sp []).dents = l.ents.map (fun kv => ((0, kv.1.getLastD 0), kv.2)) ∧
    (sSyncDir l sp []).dur = sp.dur := by
  have hid : dirIdAt l [] = some 0 := by simp [dirIdAt, entAt]
  have hch : sChildren l [] = l.ents := by
    unfold sChildren
    apply List.filter_eq_self.mpr
    intro kv hkv
    obtain ⟨⟨m, hm⟩, _⟩ := hf kv.1 kv.2 hkv
    rw [hm]; exact isChildOf_single_root m
  have hoth : ∀ (kids : List ((Nat × Nat) × Ent)),
      (sp.dents.filter fun kv => kv.1.1 != 0 && !(kids.any fun k => k.2 == kv.2)) = [] := by
    intro kids
    apply List.filter_eq_nil_iff.mpr
    intro kv hkv
    have := hk kv.1 kv.2 hkv
    simp [this]
  unfold sSyncDir
  simp only [hid, hch, parent, hoth, List.nil_append]
  exact ⟨trivial, trivial⟩

theorem D.syncDirRoot {fs fs' : Fs} {l : Live} {dur : List (Nat × Bytes)} {dents : List ((Nat × Nat) × Ent)}
    (h : D fs l dur dents) (hR : FsRelX fs l) (hs : syncDir fs [] = .ok fs') :
    D fs' l dur (l.ents.map (fun kv => ((0, kv.1.getLastD 0), kv.2))) := by
  unfold syncDir at hs
  split at hs
  · cases hs
  · simp only [Except.ok.injEq] at hs
    let keep := fs.pending.filter fun op => !(isDirOpOf [] op)
    let flush := fs.pending.filter (isDirOpOf [])
    have hmem : ∀ o ∈ flush, o ∈ fs.pending ∧ isDirOpOf [] o = true := fun o ho => List.mem_filter.mp ho
    have hcr : ∀ o ∈ flush, isCreate o = true := fun o ho =>
      isDirOpOf_create (hR.noRN o (hmem o ho).1) (hmem o ho).2
    have hcfile : ∀ o ∈ flush, isCreateFile o = true := by
      intro o ho
      have h1 := hcr o ho
      cases o with
      | createFile a => rfl
      | createDir a =>
        have : hasCreateDir fs.pending a = true := by
          simp only [hasCreateDir, List.any_eq_true]
          exact ⟨_, (hmem _ ho).1, by simp⟩
        rw [h.nocd a] at this; cases this
      | write a off dd => simp [isCreate] at h1
      | setLen a k => simp [isCreate] at h1
      | rename a b => simp [isCreate] at h1
      | removeFile a => simp [isCreate] at h1
      | removeDir a => simp [isCreate] at h1
    obtain ⟨e1, e2, e3, e4⟩ := foldl_syncDirStep_creates [] flush { fs with pending := keep } hcr
    have hsyn : ∀ m, fs'.synced.contains [m] = (fs.synced.contains [m] || hasCreateFile fs.pending [m]) := by
      intro m
      rw [← hs, foldl_syncDirStep_synced [] [m] flush _ hcfile (fun o ho => (hmem o ho).2)]
      congr 1
      apply any_filter_of_imp
      intro x hx
      have : x = POp.createFile [m] := by simpa using hx
      subst this
      simp [isDirOpOf, isChildOf_single_root]
    have hsome : ∀ m, (alookup [m] fs'.files).isSome = ((alookup [m] fs.files).isSome || hasCreateFile fs.pending [m]) := by
      intro m
      rw [← hs, e2 [m]]
      congr 1
      apply any_filter_of_imp
      intro x hx
      have : x = POp.createFile [m] := by simpa using hx
      subst this
      simp [isDirOpOf, isChildOf_single_root]
    have hget : ∀ q, (alookup q fs'.files).getD [] = (alookup q fs.files).getD [] := by
      intro q; rw [← hs]; exact e3 q
    have hpend : fs'.pending = keep := by rw [← hs]; exact e1
    have hdl : ∀ m, dlookup (0, m) (l.ents.map (fun kv => ((0, kv.1.getLastD 0), kv.2))) = entAt l [m] := by
      intro m
      rw [dlookup_kids m l.ents (fun p e he => (h.flat p e he).1)]
      simp [entAt]
    have hsy' : ∀ m, isFileAt l [m] = true → fs'.synced.contains [m] = true := by
      intro m hm
      rw [hsyn]
      rcases h.cf m hm with h1 | h1
      · rw [h1]; rfl
      · rw [h1]; simp
    refine ⟨?_, ?_, ?_, ?_, ?_, ?_, ?_, ?_, h.durFresh, ?_, ?_, h.flat⟩
    · intro m id hm
      rw [hdl, hm]
      constructor
      · intro _; rfl
      · intro _; exact hsy' m (isFileAt_of_ent hm)
    · intro m id hm; rw [hget]; exact h.cont m id hm
    · intro m hm
      rw [hsyn] at hm
      rw [hsome]
      cases h1 : fs.synced.contains [m] with
      | true => rw [h.pers m h1]; rfl
      | false =>
        rw [h1] at hm
        simp only [Bool.false_or] at hm
        simp [hm]
    · intro m e hm; rw [hdl] at hm; exact hm
    · intro k e hke
      simp only [List.mem_map] at hke
      obtain ⟨kv, _, hkv⟩ := hke
      cases hkv; rfl
    · intro k e hke
      simp only [List.mem_map] at hke
      obtain ⟨kv, hmem, hkv⟩ := hke
      cases hkv
      exact (h.flat kv.1 kv.2 hmem).2
    · intro m hm
      rw [hsyn] at hm
      cases h1 : fs.synced.contains [m] with
      | true => exact h.slive m h1
      | false =>
        rw [h1] at hm
        simp only [Bool.false_or] at hm
        rw [← hR.file, fileExists_noRN fs hR.noRN, hm]; simp
    · intro m hm; exact Or.inl (hsy' m hm)
    · intro q
      rw [hpend]
      cases hc : hasCreateDir keep q with
      | false => rfl
      | true =>
        have := any_of_filter_any fs.pending _ _ hc
        have h2 := h.nocd q
        unfold hasCreateDir at h2
        rw [h2] at this; cases this
    · intro m
      rw [← hs, e4 [m]]
      show (fs.dirs.contains [m] || hasCreateDir flush [m]) = false
      rw [h.rootOnly m]
      cases hc : hasCreateDir flush [m] with
      | false => rfl
      | true =>
        have := any_of_filter_any fs.pending _ _ hc
        have h2 := h.nocd [m]
        unfold hasCreateDir at h2
        rw [h2] at this; cases this

end TV.Fs
