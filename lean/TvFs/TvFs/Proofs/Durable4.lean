/-
  Post-crash correspondence on the flat fragment and the lift to histories.
-/
import TvFs.Proofs.Durable3
import TvFs.Proofs.Crash

namespace TV.Fs

theorem fileExists_nil (s : Fs) (hp : s.pending = []) (p : Path) :
    fileExists s p = (alookup p s.files).isSome := by
  unfold fileExists; rw [hp]; rfl

theorem dirExists_nil (s : Fs) (hp : s.pending = []) (p : Path) : dirExists s p = s.dirs.contains p := by
  unfold dirExists; rw [hp]; rfl

theorem fileLen_nil (s : Fs) (hp : s.pending = []) (p : Path) :
    fileLen s p = ((alookup p s.files).getD []).length := by
  unfold fileLen resolvePath; rw [hp]; rfl

theorem content_nil (s : Fs) (hp : s.pending = []) (p : Path) :
    content s p = (alookup p s.files).getD [] := by
  unfold content
  rw [fileLen_nil s hp p]
  unfold resolvePath
  rw [hp]
  simp only [List.reverse_nil, resolveBack, List.foldl_nil]
  rw [overlayClip_replicate, resize_self]

theorem rebuild_flat (dents : List ((Nat × Nat) × Ent))
    (hf : ∀ k e, (k, e) ∈ dents → ∃ id, e = Ent.file id) :
    rebuild dents 8 [([], 0)] =
      (dents.filter fun kv => kv.1.1 == 0).map fun kv => (([] : Path) ++ [kv.1.2], kv.2) := by
  have hfound : ∀ pe ∈ ((dents.filter fun kv => kv.1.1 == 0).map fun kv => (([] : Path) ++ [kv.1.2], kv.2)),
      ∃ id, pe.2 = Ent.file id := by
    intro pe hpe
    simp only [List.mem_map] at hpe
    obtain ⟨kv, hkv, rfl⟩ := hpe
    exact hf kv.1 kv.2 (List.mem_filter.mp hkv).1
  have h7 : ∀ (fr : List (Path × Nat)), fr = [] → rebuild dents 7 fr = [] := by
    intro fr hfr; subst hfr; simp [rebuild]
  show (let found := ([(([] : Path), 0)] : List (Path × Nat)).flatMap fun pd =>
          (dents.filter fun kv => kv.1.1 == pd.2).map fun kv => (pd.1 ++ [kv.1.2], kv.2)
        if found.isEmpty then [] else found ++ rebuild dents 7 _) = _
  simp only [List.flatMap_cons, List.flatMap_nil, List.append_nil]
  split
  · next h => exact (List.isEmpty_iff.mp h).symm
  · generalize hX : List.filterMap _ (List.map _ _) = X
    have : X = [] := by
      rw [← hX]
      apply List.filterMap_eq_nil_iff.mpr
      intro pe hpe
      obtain ⟨id, hid⟩ := hfound pe hpe
      rw [hid]
    rw [h7 X this, List.append_nil]

/-- right after a crash, the view of `[n]` on the implementation model equals the view on the
    durable image (atomic-write configuration) -/
theorem crash_view {fs : Fs} {sp : Spec} (hD : D fs sp.l sp.dur sp.dents) (t t' : List Nat) (n : Nat) :
    viewOf (crash fs none t) [n] = sView (sCrash sp none t').l [n] := by
  have hpend : (crash fs none t).pending = [] := rfl
  have hfiles : ∀ p, alookup p (crash fs none t).files =
      if fs.synced.contains p then alookup p fs.files else none :=
    fun p => alookup_filter p (fun k => fs.synced.contains k) fs.files
  have hdirs : (crash fs none t).dirs.contains [n] = false := by
    show (fs.dirs.filter fun d => fs.synced.contains d).contains [n] = false
    cases hc : (fs.dirs.filter fun d => fs.synced.contains d).contains [n] with
    | false => rfl
    | true =>
      have : [n] ∈ fs.dirs := by
        have := List.contains_iff_mem.mp hc
        exact (List.mem_filter.mp this).1
      have h2 := hD.rootOnly n
      rw [List.contains_iff_mem.mpr this] at h2; cases h2
  have hent : entAt (sCrash sp none t').l [n] = dlookup (0, n) sp.dents := by
    show (if ([n] : Path) = [] then some (.dir 0) else elookup [n] (rebuild sp.dents 8 [([], 0)])) = _
    simp only [List.cons_ne_nil, if_false]
    rw [rebuild_flat sp.dents hD.dfiles]
    exact elookup_flat_found n sp.dents hD.keys0
  have hlive : ∀ id, liveContent (sCrash sp none t').l id = (nlookup id sp.dur).getD [] := fun _ => rfl
  unfold viewOf sView
  rw [fileExists_nil _ hpend, dirExists_nil _ hpend, hdirs, fileLen_nil _ hpend, content_nil _ hpend,
      hfiles, hent]
  cases hs : fs.synced.contains [n] with
  | true =>
    simp only [if_true]
    have hfile := hD.slive n hs
    cases hl : entAt sp.l [n] with
    | none => simp [isFileAt, hl] at hfile
    | some en =>
      cases en with
      | dir did => simp [isFileAt, hl] at hfile
      | file id =>
        have hdl := (hD.sync n id hl).mp hs
        have hpers := hD.pers n hs
        rw [hdl, hpers]
        simp only [if_true]
        rw [hlive, ← hD.cont n id hl]
  | false =>
    simp only [Bool.false_eq_true, if_false, Option.isSome_none]
    cases hdl : dlookup (0, n) sp.dents with
    | none => rfl
    | some e =>
      have hj := hD.junk n e hdl
      obtain ⟨id, hid⟩ := hD.dfiles _ _ (dlookup_mem hdl)
      subst hid
      have := (hD.sync n id hj).mpr hdl
      rw [hs] at this; cases this

theorem D_init : D St.init.fs Spec.init.l Spec.init.dur Spec.init.dents := by
  have he : ∀ n, entAt Spec.init.l [n] = none := by
    intro n; simp [entAt, Spec.init, elookup]
  refine ⟨?_, ?_, ?_, ?_, ?_, ?_, ?_, ?_, ?_, ?_, ?_, ?_⟩
  · intro n id h; rw [he] at h; cases h
  · intro n id h; rw [he] at h; cases h
  · intro n h; simp [St.init, List.contains_iff_mem] at h
  · intro n e h; simp [Spec.init, dlookup] at h
  · intro k e h; simp [Spec.init] at h
  · intro k e h; simp [Spec.init] at h
  · intro n h; simp [St.init, List.contains_iff_mem] at h
  · intro n h; simp [isFileAt, he] at h
  · intro id h; simp [Spec.init, nlookup] at h
  · intro p; simp [St.init, hasCreateDir]
  · intro n; simp [St.init, List.contains_iff_mem]
  · intro p e h; simp [Spec.init] at h

theorem sStep_l (sp : Spec) (op : Op) (hc : op ≠ .crash) : (sStep {} sp op {}).1.l = (lStep sp.l op).1 :=
  (sStep_live sp op {} hc).2

theorem flat_states : ∀ (h : List Op) (st : St) (sp : Spec), R st sp.l → D st.fs sp.l sp.dur sp.dents →
    flatRun sp.l h = true →
    R (runSt {} st (quiet h)) (sRunSt {} sp (quiet h)).l ∧
    D (runSt {} st (quiet h)).fs (sRunSt {} sp (quiet h)).l (sRunSt {} sp (quiet h)).dur
      (sRunSt {} sp (quiet h)).dents := by
  intro h
  induction h with
  | nil => intro st sp hR hD _; exact ⟨hR, hD⟩
  | cons op r ih =>
    intro st sp hR hD hf
    simp only [flatRun, Bool.and_eq_true] at hf
    obtain ⟨⟨hfo, hfl⟩, hfr⟩ := hf
    have hnc : op ≠ .crash := fragOk_not_crash hfo
    have hl := sStep_l sp op hnc
    have hR' : R (step {} st op {}).1 (sStep {} sp op {}).1.l := by
      rw [hl]; exact (sim_step hR op hfo).2
    have hD' := dsim_step hR hD op hfo hfl
    simp only [quiet, List.map_cons, runSt, sRunSt]
    apply ih _ _ hR' hD'
    rw [hl]; exact hfr

theorem runSt_append (cfg : Cfg) : ∀ (a b : List (Op × Ora)) (st : St),
    runSt cfg st (a ++ b) = runSt cfg (runSt cfg st a) b := by
  intro a
  induction a with
  | nil => intro b st; rfl
  | cons x r ih => intro b st; obtain ⟨op, ora⟩ := x; simp only [List.cons_append, runSt]; exact ih b _

theorem sRunSt_append (cfg : Cfg) : ∀ (a b : List (Op × Ora)) (sp : Spec),
    sRunSt cfg sp (a ++ b) = sRunSt cfg (sRunSt cfg sp a) b := by
  intro a
  induction a with
  | nil => intro b sp; rfl
  | cons x r ih => intro b sp; obtain ⟨op, ora⟩ := x; simp only [List.cons_append, sRunSt]; exact ih b _

end TV.Fs
