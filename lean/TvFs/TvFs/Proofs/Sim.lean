/-
  One-step simulation: on the fragment every shim call returns the same observation on the
  implementation model and on the POSIX tree, and re-establishes the relation.
-/
import TvFs.Proofs.Refine

namespace TV.Fs

theorem content_of {fs : Fs} {l : Live} (h : FsRel fs l) {p : Path} {id : Nat}
    (hp : entAt l p = some (.file id)) : content fs p = liveContent l id := by
  rw [content_eq_inc fs h.noRN p (h.mono p)]; exact h.cont p id hp

theorem fileLen_of {fs : Fs} {l : Live} (h : FsRel fs l) {p : Path} {id : Nat}
    (hp : entAt l p = some (.file id)) : fileLen fs p = (liveContent l id).length := by
  rw [fileLen_eq_inc fs h.noRN p, h.cont p id hp]

theorem writeFs_nocoin (fs : Fs) (p : Path) (off : Nat) (d : Bytes) :
    writeFs fs p off d false = if d.isEmpty then fs else push fs (.write p off d) := by
  unfold writeFs push; simp

theorem setLenFs_nocoin (fs : Fs) (p : Path) (n : Nat) : setLenFs fs p n false = push fs (.setLen p n) := by
  unfold setLenFs push; simp

/-- a write through a path that denotes file `id` -/
theorem FsRel.write {fs : Fs} {l : Live} (h : FsRel fs l) {p : Path} {id : Nat}
    (hp : entAt l p = some (.file id)) (off : Nat) (d : Bytes) :
    FsRel (writeFs fs p off d false) (sWrite l id off d) := by
  rw [writeFs_nocoin]
  unfold sWrite
  by_cases hd : d.isEmpty = true
  · simp only [hd, if_true]; exact h
  · simp only [hd]
    have := h.dataop p id (.write p off d) hp (by simp [isDataOpOf]) (fun _ _ he _ => by cases he)
    simpa [incStep] using this

theorem FsRel.setLen {fs : Fs} {l : Live} (h : FsRel fs l) {p : Path} {id : Nat}
    (hp : entAt l p = some (.file id)) (n : Nat) (hn : (liveContent l id).length ≤ n) :
    FsRel (setLenFs fs p n false) (sSetLen l id n) := by
  rw [setLenFs_nocoin]
  unfold sSetLen
  have := h.dataop p id (.setLen p n) hp (by simp [isDataOpOf])
    (fun q m he _ => by cases he; rw [h.cont p id hp]; exact hn)
  simpa [incStep] using this

theorem setLive_eq_self (l : Live) (id : Nat) (c : Bytes) (h : liveContent l id = c) : setLive l id c = l := by
  cases l with
  | mk ents live next handles =>
    simp only [setLive, liveContent] at h ⊢
    congr
    funext j
    by_cases hj : j = id
    · subst hj; simp [h]
    · simp [hj]

/-! ### open -/

theorem open_err {fs : Fs} {l : Live} (h : FsRel fs l) (p : Path) (fl : Flags)
    (hf : (!((fl.c || fl.n) && isDirAt l p) && (!(fl.t && fl.w) || emptyOrAbsent l p)) = true)
    (e : Err) (he : openFs fs p fl = .error e) : sOpen l p fl = .error e := by
  simp only [Bool.and_eq_true, Bool.not_eq_true', Bool.or_eq_true] at hf
  unfold openFs at he
  unfold sOpen
  cases hent : entAt l p with
  | none =>
    have hfe : fileExists fs p = false := by rw [h.file, isFileAt_of_none hent]
    simp only [openCreate, hfe, Bool.false_eq_true, if_false, parentExists_eq h] at he
    by_cases hc : (fl.c || fl.n) = true
    · simp only [hc, if_true] at he ⊢
      by_cases hpar : (!sParentIsDir l p) = true
      · simp only [hpar, if_true] at he ⊢
        cases he; rfl
      · simp only [hpar] at he
        cases he
    · simp only [hc] at he ⊢
      cases he; rfl
  | some en =>
    cases en with
    | file id =>
      have hfe : fileExists fs p = true := by rw [h.file, isFileAt_of_ent hent]
      simp only [openCreate, hfe, if_true] at he
      by_cases hn : fl.n = true
      · simp only [hn, if_true] at he ⊢
        cases he; rfl
      · simp only [hn] at he
        cases he
    | dir id =>
      have hfe : fileExists fs p = false := by simp [h.file, isFileAt, hent]
      have hd : isDirAt l p = true := by simp [isDirAt, hent]
      have hcn : (fl.c || fl.n) = false := by
        have := hf.1
        simp only [hd, Bool.and_true] at this
        exact this
      simp only [openCreate, hfe, Bool.false_eq_true, if_false, hcn] at he
      have hn : fl.n = false := by cases hc : fl.c <;> cases hn : fl.n <;> simp [hc, hn] at hcn ⊢
      have hc : fl.c = false := by cases hc : fl.c <;> cases hn : fl.n <;> simp [hc, hn] at hcn ⊢
      simp only [hn, hc, Bool.false_eq_true, if_false]
      cases he; rfl

structure OpenOk (fs' : Fs) (l l' : Live) (p : Path) (id : Nat) : Prop where
  rel : FsRel fs' l'
  ent : entAt l' p = some (.file id)
  handles : l'.handles = l.handles
  keep : ∀ q j, entAt l q = some (.file j) → entAt l' q = some (.file j)

theorem open_ok {fs : Fs} {l : Live} (h : FsRel fs l) (p : Path) (fl : Flags)
    (hf : (!((fl.c || fl.n) && isDirAt l p) && (!(fl.t && fl.w) || emptyOrAbsent l p)) = true)
    (fs' : Fs) (he : openFs fs p fl = .ok fs') :
    ∃ l' id, sOpen l p fl = .ok (l', id) ∧ OpenOk fs' l l' p id := by
  simp only [Bool.and_eq_true, Bool.not_eq_true', Bool.or_eq_true] at hf
  unfold openFs at he
  unfold sOpen
  cases hent : entAt l p with
  | none =>
    have hp0 := ne_root_of_entAt_none hent
    have hfe : fileExists fs p = false := by rw [h.file, isFileAt_of_none hent]
    cases hc : (fl.c || fl.n) with
    | false => simp [openCreate, hfe, hc] at he
    | true =>
      cases hpar : sParentIsDir l p with
      | false => simp [openCreate, hfe, hc, parentExists_eq h, hpar] at he
      | true =>
        have hcr := h.create p hent
        have hentc : entAt (createL l p) p = some (.file l.next) := by rw [entAt_createL l p p hp0]; simp
        have hkeep : ∀ q j, entAt l q = some (.file j) → entAt (createL l p) q = some (.file j) := by
          intro q j hq
          rw [entAt_createL l p q hp0]
          have : q ≠ p := by intro e; subst e; rw [hent] at hq; cases hq
          simp [this, hq]
        refine ⟨createL l p, l.next, by simp [hpar]; rfl, ?_⟩
        cases htw : (fl.t && fl.w) with
        | true =>
          have he' : fs' = push (push fs (.createFile p)) (.setLen p 0) := by
            simp [openCreate, hfe, hc, parentExists_eq h, hpar, htw] at he
            rw [← he]; simp [push]
          subst he'
          -- the truncation is a non-shrinking SetLen 0 on the freshly created (empty) file
          have := hcr.dataop p l.next (.setLen p 0) hentc (by simp [isDataOpOf])
            (fun q m hq _ => by
              cases hq
              rw [hcr.cont p l.next hentc, liveContent_createL]; simp)
          have hl : setLive (createL l p) l.next (incStep p (liveContent (createL l p) l.next) (.setLen p 0)) =
              createL l p := by
            have e0 : liveContent (createL l p) l.next = [] := by rw [liveContent_createL]; simp
            simp only [incStep, beq_self_eq_true, if_true, e0]
            exact setLive_eq_self _ _ _ (by rw [e0]; rfl)
          rw [hl] at this
          exact ⟨this, hentc, rfl, hkeep⟩
        | false =>
          have he' : fs' = push fs (.createFile p) := by
            simp [openCreate, hfe, hc, parentExists_eq h, hpar, htw] at he
            rw [← he]; rfl
          subst he'
          exact ⟨hcr, hentc, rfl, hkeep⟩
  | some en =>
    cases en with
    | file id =>
      have hfe : fileExists fs p = true := by rw [h.file, isFileAt_of_ent hent]
      cases hn : fl.n with
      | true => simp [openCreate, hfe, hn] at he
      | false =>
        cases htw : (fl.t && fl.w) with
        | true =>
          have he' : fs' = push fs (.setLen p 0) := by
            simp [openCreate, hfe, hn, htw] at he
            rw [← he]; rfl
          subst he'
          have hemp : liveContent l id = [] := by
            have := hf.2
            rcases this with h1 | h1
            · rw [htw] at h1; cases h1
            · simp only [emptyOrAbsent, hent] at h1
              exact List.isEmpty_iff.mp h1
          refine ⟨setLive l id [], id, by simp, ?_⟩
          have := h.dataop p id (.setLen p 0) hent (by simp [isDataOpOf])
            (fun q m hq _ => by cases hq; rw [h.cont p id hent, hemp]; simp)
          have e1 : incStep p (liveContent l id) (.setLen p 0) = [] := by
            simp [incStep, hemp, resize]
          rw [e1] at this
          exact ⟨this, by rw [entAt_congr (setLive_ents l id [])]; exact hent, rfl,
                 fun q j hq => by rw [entAt_congr (setLive_ents l id [])]; exact hq⟩
        | false =>
          have he' : fs' = fs := by
            simp [openCreate, hfe, hn, htw] at he
            exact he.symm
          subst he'
          exact ⟨l, id, by simp, h, hent, rfl, fun _ _ hq => hq⟩
    | dir id =>
      have hfe : fileExists fs p = false := by simp [h.file, isFileAt, hent]
      have hd : isDirAt l p = true := by simp [isDirAt, hent]
      have hcn : (fl.c || fl.n) = false := by
        have := hf.1
        simp only [hd, Bool.and_true] at this
        exact this
      simp [openCreate, hfe, hcn] at he

end TV.Fs
