/-
  View lemmas for the implementation model on logs that hold only creations and data ops
  (no rename, no removal) and never shrink a file: the replay functions then agree with the
  *incremental* reading of the log (`inc`), which is compositional and is what syncs preserve.
-/
import TvFs.Model.Fs
import TvFs.Proofs.Bytes

namespace TV.Fs

/-- pending ops of the proven fragment -/
def isNs : POp → Bool
  | .createFile _ => true
  | .createDir _ => true
  | .write _ _ _ => true
  | .setLen _ _ => true
  | _ => false

def NoRN (pend : List POp) : Prop := ∀ op ∈ pend, isNs op = true

theorem NoRN.tail {o : POp} {r : List POp} (h : NoRN (o :: r)) : NoRN r :=
  fun op hop => h op (List.mem_cons_of_mem _ hop)

theorem NoRN.head {o : POp} {r : List POp} (h : NoRN (o :: r)) : isNs o = true := h o List.mem_cons_self

theorem NoRN.append {a b : List POp} (ha : NoRN a) (hb : NoRN b) : NoRN (a ++ b) := by
  intro op hop
  rcases List.mem_append.mp hop with h | h
  · exact ha op h
  · exact hb op h

theorem NoRN.filter {a : List POp} (ha : NoRN a) (f : POp → Bool) : NoRN (a.filter f) :=
  fun op hop => ha op (List.mem_filter.mp hop).1

theorem NoRN.reverse {a : List POp} (ha : NoRN a) : NoRN a.reverse :=
  fun op hop => ha op (List.mem_reverse.mp hop)

theorem NoRN.single {o : POp} (h : isNs o = true) : NoRN [o] := by
  intro op hop; simp at hop; subst hop; exact h

theorem NoRN.nil : NoRN [] := fun _ h => by cases h

theorem resolveBack_noRN : ∀ (l : List POp), NoRN l → ∀ cur, resolveBack l cur = cur := by
  intro l
  induction l with
  | nil => intro _ cur; rfl
  | cons o r ih =>
    intro h cur
    have ho := h.head
    cases o <;> simp [isNs] at ho <;> simp only [resolveBack] <;> exact ih h.tail cur

theorem renamedFwd_noRN : ∀ (l : List POp), NoRN l → ∀ cur, renamedFwd l cur = cur := by
  intro l
  induction l with
  | nil => intro _ cur; rfl
  | cons o r ih =>
    intro h cur
    have ho := h.head
    cases o <;> simp [isNs] at ho <;> simp only [renamedFwd] <;> exact ih h.tail cur

theorem resolvePath_noRN (s : Fs) (h : NoRN s.pending) (p : Path) : resolvePath s p = p :=
  resolveBack_noRN _ h.reverse p

theorem appliesTo_noRN (s : Fs) (h : NoRN s.pending) (q p : Path) : appliesTo s q p = (q == p) := by
  unfold appliesTo pathRenamedTo
  rw [renamedFwd_noRN _ h]
  simp

/-! ### incremental reading of the log -/

/-- apply one data op of path `p` to its content -/
def incStep (p : Path) (c : Bytes) : POp → Bytes
  | .write q off d => if q == p then writeAt c off d else c
  | .setLen q n => if q == p then resize c n else c
  | _ => c

def lenStep (p : Path) (len : Nat) : POp → Nat
  | .write q off d => if q == p then (if off + d.length > len then off + d.length else len) else len
  | .setLen q n => if q == p then n else len
  | _ => len

def ovStep (p : Path) (buf : Bytes) : POp → Bytes
  | .write q off d => if q == p then overlayClip buf off d else buf
  | _ => buf

/-- the content of `p` read incrementally: persisted content, then every data op in order -/
def inc (s : Fs) (p : Path) : Bytes := s.pending.foldl (incStep p) ((alookup p s.files).getD [])

/-- no `SetLen` of `p` in the list shrinks the file -/
def NoShrink (p : Path) : Bytes → List POp → Prop
  | _, [] => True
  | c, .setLen q n :: r => (q == p → c.length ≤ n) ∧ NoShrink p (incStep p c (.setLen q n)) r
  | c, o :: r => NoShrink p (incStep p c o) r

theorem NoShrink.cons {p : Path} {c : Bytes} {o : POp} {r : List POp} (h : NoShrink p c (o :: r)) :
    NoShrink p (incStep p c o) r := by
  cases o <;> simp only [NoShrink] at h <;> first | exact h | exact h.2

theorem fileLenStep_eq (s : Fs) (h : NoRN s.pending) (p : Path) (len : Nat) (o : POp) :
    fileLenStep s p len o = lenStep p len o := by
  cases o <;> simp only [fileLenStep, lenStep, appliesTo_noRN s h]

theorem contentStep_eq (s : Fs) (h : NoRN s.pending) (p : Path) (buf : Bytes) (o : POp) :
    contentStep s p buf o = ovStep p buf o := by
  cases o <;> simp only [contentStep, ovStep, appliesTo_noRN s h]

theorem foldl_congr_fn {α β : Type} (f g : α → β → α) (h : ∀ a b, f a b = g a b) (l : List β) (a : α) :
    l.foldl f a = l.foldl g a := by
  have : f = g := funext fun a => funext fun b => h a b
  rw [this]

theorem fileLen_eq (s : Fs) (h : NoRN s.pending) (p : Path) :
    fileLen s p = s.pending.foldl (lenStep p) ((alookup p s.files).getD []).length := by
  unfold fileLen
  simp only [resolvePath_noRN s h]
  exact foldl_congr_fn _ _ (fileLenStep_eq s h p) _ _

theorem length_incStep (p : Path) (c : Bytes) (o : POp) : (incStep p c o).length = lenStep p c.length o := by
  cases o with
  | write q off d =>
    simp only [incStep, lenStep]
    split
    · rw [length_writeAt]; split <;> omega
    · rfl
  | setLen q n =>
    simp only [incStep, lenStep]
    split
    · rw [length_resize]
    · rfl
  | createFile q => rfl
  | createDir q => rfl
  | rename a b => rfl
  | removeFile q => rfl
  | removeDir q => rfl

theorem len_foldl_inc (p : Path) : ∀ (ops : List POp) (c : Bytes),
    ops.foldl (lenStep p) c.length = (ops.foldl (incStep p) c).length := by
  intro ops
  induction ops with
  | nil => intro c; rfl
  | cons o r ih =>
    intro c
    simp only [List.foldl_cons]
    rw [← length_incStep, ih]

/-- overlaying every write on the zero-extended base = applying the ops one after the other,
    provided no `SetLen` shrinks -/
theorem overlay_eq_inc (p : Path) : ∀ (ops : List POp) (c : Bytes) (L : Nat), NoShrink p c ops →
    ops.foldl (ovStep p) (resize c L) = resize (ops.foldl (incStep p) c) L := by
  intro ops
  induction ops with
  | nil => intro c L _; rfl
  | cons o r ih =>
    intro c L hns
    simp only [List.foldl_cons]
    have hr := hns.cons
    cases o with
    | write q off d =>
      simp only [ovStep, incStep] at *
      by_cases hq : (q == p) = true
      · simp only [hq, if_true] at *
        rw [overlay_resize_write]
        exact ih _ L hr
      · simp only [hq] at *
        exact ih _ L hr
    | setLen q n =>
      simp only [NoShrink] at hns
      simp only [ovStep, incStep] at *
      by_cases hq : (q == p) = true
      · simp only [hq, if_true] at *
        rw [← ih _ L hr, resize_resize_of_le c n L (hns.1 trivial)]
      · simp only [hq] at *
        exact ih _ L hr
    | createFile q => exact ih _ L hr
    | createDir q => exact ih _ L hr
    | rename a b => exact ih _ L hr
    | removeFile q => exact ih _ L hr
    | removeDir q => exact ih _ L hr

/-- the length reported by `file_len` is the length of the incremental content -/
theorem fileLen_eq_inc (s : Fs) (h : NoRN s.pending) (p : Path) : fileLen s p = (inc s p).length := by
  rw [fileLen_eq s h p]; exact len_foldl_inc p _ _

/-- `read_file` shows exactly the incremental content -/
theorem content_eq_inc (s : Fs) (h : NoRN s.pending) (p : Path)
    (hns : NoShrink p ((alookup p s.files).getD []) s.pending) : content s p = inc s p := by
  unfold content
  simp only [resolvePath_noRN s h]
  rw [overlayClip_replicate]
  rw [foldl_congr_fn _ _ (contentStep_eq s h p)]
  rw [overlay_eq_inc p _ _ _ hns, fileLen_eq_inc s h p]
  exact resize_self _

/-! ### existence under creation-only logs -/

def hasCreateFile (pend : List POp) (p : Path) : Bool := pend.any fun o => o == .createFile p
def hasCreateDir (pend : List POp) (p : Path) : Bool := pend.any fun o => o == .createDir p

theorem foldl_fileExists_noRN (p : Path) : ∀ (pend : List POp), NoRN pend → ∀ b : Bool,
    pend.foldl (fileExistsStep p) b = (b || hasCreateFile pend p) := by
  intro pend
  induction pend with
  | nil => intro _ b; simp [hasCreateFile]
  | cons o r ih =>
    intro h b
    simp only [List.foldl_cons]
    rw [ih h.tail]
    have ho := h.head
    cases o with
    | createFile q =>
      simp only [fileExistsStep, hasCreateFile, List.any_cons]
      by_cases hq : q = p
      · subst hq; simp
      · have : (POp.createFile q == POp.createFile p) = false := by simp [hq]
        simp [hq, this]
    | createDir q =>
      have e : (POp.createDir q == POp.createFile p) = false := by
        rw [beq_eq_false_iff_ne]; intro h; cases h
      simp [fileExistsStep, hasCreateFile, e]
    | write q off d =>
      have e : (POp.write q off d == POp.createFile p) = false := by
        rw [beq_eq_false_iff_ne]; intro h; cases h
      simp [fileExistsStep, hasCreateFile, e]
    | setLen q n =>
      have e : (POp.setLen q n == POp.createFile p) = false := by
        rw [beq_eq_false_iff_ne]; intro h; cases h
      simp [fileExistsStep, hasCreateFile, e]
    | rename a b => simp [isNs] at ho
    | removeFile q => simp [isNs] at ho
    | removeDir q => simp [isNs] at ho

theorem fileExists_noRN (s : Fs) (h : NoRN s.pending) (p : Path) :
    fileExists s p = ((alookup p s.files).isSome || hasCreateFile s.pending p) :=
  foldl_fileExists_noRN p _ h _

theorem foldl_dirExists_noRN (pd : List Path) (p : Path) : ∀ (pend : List POp), NoRN pend → ∀ b : Bool,
    pend.foldl (dirExistsStep pd p) b = (b || hasCreateDir pend p) := by
  intro pend
  induction pend with
  | nil => intro _ b; simp [hasCreateDir]
  | cons o r ih =>
    intro h b
    simp only [List.foldl_cons]
    rw [ih h.tail]
    have ho := h.head
    cases o with
    | createDir q =>
      simp only [dirExistsStep, hasCreateDir, List.any_cons]
      by_cases hq : q = p
      · subst hq; simp
      · have : (POp.createDir q == POp.createDir p) = false := by simp [hq]
        simp [hq, this]
    | createFile q =>
      have e : (POp.createFile q == POp.createDir p) = false := by
        rw [beq_eq_false_iff_ne]; intro h; cases h
      simp [dirExistsStep, hasCreateDir, e]
    | write q off d =>
      have e : (POp.write q off d == POp.createDir p) = false := by
        rw [beq_eq_false_iff_ne]; intro h; cases h
      simp [dirExistsStep, hasCreateDir, e]
    | setLen q n =>
      have e : (POp.setLen q n == POp.createDir p) = false := by
        rw [beq_eq_false_iff_ne]; intro h; cases h
      simp [dirExistsStep, hasCreateDir, e]
    | rename a b => simp [isNs] at ho
    | removeFile q => simp [isNs] at ho
    | removeDir q => simp [isNs] at ho

theorem dirExists_noRN (s : Fs) (h : NoRN s.pending) (p : Path) :
    dirExists s p = (s.dirs.contains p || hasCreateDir s.pending p) :=
  foldl_dirExists_noRN _ p _ h _

end TV.Fs
