/-
  From the one-step simulation to whole histories; the POSIX tree ignores syncs.
-/
import TvFs.Proofs.Step

namespace TV.Fs

def quiet (h : List Op) : List (Op × Ora) := h.map fun o => (o, {})

theorem R_init : R St.init Live.init := by
  refine ⟨⟨NoRN.nil, fun _ => trivial, ?_, ?_, ?_, ?_, ?_, ?_⟩, ?_⟩
  · intro p
    by_cases hp : p = [] <;> simp [hp, fileExists, St.init, isFileAt, entAt, Live.init, alookup, elookup]
  · intro p
    by_cases hp : p = []
    · subst hp; decide
    · have : dirExists St.init.fs p = false := by
        simp [dirExists, St.init, List.contains_iff_mem, hp]
      rw [this]
      simp [isDirAt, entAt, hp, Live.init, elookup]
  · intro p id hp
    by_cases hp0 : p = []
    · subst hp0; simp [entAt] at hp
    · simp [entAt, hp0, Live.init, elookup] at hp
  · intro p _; rfl
  · intro p q id hp
    by_cases hp0 : p = []
    · subst hp0; simp [entAt] at hp
    · simp [entAt, hp0, Live.init, elookup] at hp
  · intro p id hp
    by_cases hp0 : p = []
    · subst hp0; simp [entAt] at hp
    · simp [entAt, hp0, Live.init, elookup] at hp
  · intro i; simp [St.init, Live.init]

theorem run_eq_lRun : ∀ (h : List Op) (st : St) (l : Live), R st l → fragRun l h = true →
    run {} st (quiet h) = lRun l h := by
  intro h
  induction h with
  | nil => intro st l _ _; rfl
  | cons op r ih =>
    intro st l hR hf
    simp only [fragRun, Bool.and_eq_true] at hf
    obtain ⟨ho, hRn⟩ := sim_step hR op hf.1
    simp only [quiet, List.map_cons, run, lRun]
    rw [ho]
    congr 1
    exact ih _ _ hRn hf.2

theorem sStep_live (sp : Spec) (op : Op) (ora : Ora) (hc : op ≠ .crash) :
    (sStep {} sp op ora).2 = (lStep sp.l op).2 ∧ (sStep {} sp op ora).1.l = (lStep sp.l op).1 := by
  cases op <;> first | exact absurd rfl hc | exact ⟨rfl, rfl⟩

theorem sRun_eq_lRun : ∀ (h : List Op) (sp : Spec), (∀ op ∈ h, op ≠ Op.crash) →
    sRun {} sp (quiet h) = lRun sp.l h := by
  intro h
  induction h with
  | nil => intro sp _; rfl
  | cons op r ih =>
    intro sp hc
    obtain ⟨h1, h2⟩ := sStep_live sp op {} (hc op List.mem_cons_self)
    simp only [quiet, List.map_cons, sRun, lRun]
    rw [h1]
    congr 1
    have := ih (sStep {} sp op {}).1 (fun o ho => hc o (List.mem_cons_of_mem _ ho))
    rw [h2] at this
    exact this

theorem fragOk_not_crash {l : Live} {op : Op} (h : fragOk l op = true) : op ≠ .crash := by
  intro e; subst e; simp [fragOk] at h

theorem fragRun_crashFree : ∀ (h : List Op) (l : Live), fragRun l h = true → ∀ op ∈ h, op ≠ Op.crash := by
  intro h
  induction h with
  | nil => intro _ _ op hop; cases hop
  | cons o r ih =>
    intro l hf op hop
    simp only [fragRun, Bool.and_eq_true] at hf
    rcases List.mem_cons.mp hop with e | e
    · subst e; exact fragOk_not_crash hf.1
    · exact ih _ hf.2 op e

/-! ### syncs are invisible on the POSIX tree -/

def isSync : Op → Bool
  | .syncAll _ => true
  | .syncData _ => true
  | .syncDir _ => true
  | _ => false

theorem lStep_sync (l : Live) (s : Op) (hs : isSync s = true) : (lStep l s).1 = l := by
  cases s <;> simp [isSync] at hs <;> simp only [lStep] <;> split <;> rfl

theorem fragOk_sync (l : Live) (s : Op) (hs : isSync s = true) : fragOk l s = true := by
  cases s <;> simp [isSync] at hs <;> rfl

theorem lRun_append : ∀ (h1 h2 : List Op) (l : Live),
    ∃ l', lRun l (h1 ++ h2) = lRun l h1 ++ lRun l' h2 ∧
      (∀ h3, lRun l (h1 ++ h3) = lRun l h1 ++ lRun l' h3) ∧
      (∀ h3, fragRun l (h1 ++ h3) = (fragRun l h1 && fragRun l' h3)) := by
  intro h1
  induction h1 with
  | nil => intro h2 l; exact ⟨l, rfl, fun _ => rfl, fun _ => by simp [fragRun]⟩
  | cons o r ih =>
    intro h2 l
    obtain ⟨l', _, e2, e3⟩ := ih h2 (lStep l o).1
    refine ⟨l', ?_, ?_, ?_⟩
    · simp only [List.cons_append, lRun, e2]
    · intro h3; simp only [List.cons_append, lRun, e2]
    · intro h3; simp only [List.cons_append, fragRun, e3, Bool.and_assoc]

theorem length_lRun : ∀ (h : List Op) (l : Live), (lRun l h).length = h.length := by
  intro h
  induction h with
  | nil => intro _; rfl
  | cons o r ih => intro l; simp [lRun, ih]

/-! ### the state-independent fragment of the committed code -/

theorem fragOkC_not_crash {op : Op} (h : fragOkC op = true) : op ≠ .crash := by
  intro e; subst e; simp [fragOkC] at h

theorem fragRunC_crashFree (h : List Op) (hf : fragRunC h = true) : ∀ op ∈ h, op ≠ Op.crash := by
  intro op hop
  simp only [fragRunC, List.all_eq_true] at hf
  exact fragOkC_not_crash (hf op hop)

/-- the old, state-dependent fragment lies inside the new one -/
theorem fragOk_fragOkC {l : Live} {op : Op} (h : fragOk l op = true) : fragOkC op = true := by
  cases op <;> first | rfl | simp [fragOk] at h

theorem fragRun_fragRunC : ∀ (h : List Op) (l : Live), fragRun l h = true → fragRunC h = true := by
  intro h
  induction h with
  | nil => intro _ _; rfl
  | cons op r ih =>
    intro l hf
    simp only [fragRun, Bool.and_eq_true] at hf
    simp only [fragRunC, List.all_cons, Bool.and_eq_true]
    exact ⟨fragOk_fragOkC hf.1, by simpa [fragRunC] using ih _ hf.2⟩

theorem fragOkC_sync (s : Op) (hs : isSync s = true) : fragOkC s = true := by
  cases s <;> simp [isSync] at hs <;> rfl

end TV.Fs
