/-
  Transfer to the model of the committed code (`stepFx Fixes.committed`): on the proved fragment the
  six committed repairs do not change a single step, so `C10_partial` / `C07_partial` carry over.
-/
import TvFs.Proofs.Repairs
import TvFs.Proofs.Durable4

namespace TV.Fs

abbrev fxc : Fixes := Fixes.committed

/-! ### component-wise agreement -/

theorem fileExistsFx_c (s : Fs) (p : Path) : fileExistsFx fxc s p = fileExists s p := rfl
theorem dirExistsFx_c (s : Fs) (p : Path) : dirExistsFx fxc s p = dirExists s p := rfl
theorem parentExistsFx_c (s : Fs) (p : Path) : parentExistsFx fxc s p = parentExists s p := rfl

theorem contentStepFx_eq' (fx : Fixes) (hfx : fx.readOrder = true) (s : Fs) (h : NoRN s.pending) (p : Path)
    (buf : Bytes) (o : POp) : contentStepFx fx s p buf o = ovStepFx p buf o := by
  cases o <;> simp only [contentStepFx, ovStepFx, appliesTo_noRN s h, hfx, Bool.true_and]

theorem contentFx_eq_inc' (fx : Fixes) (hfx : fx.readOrder = true) (s : Fs) (h : NoRN s.pending) (p : Path) :
    contentFx fx s p = inc s p := by
  unfold contentFx
  simp only [resolvePath_noRN s h]
  rw [overlayClip_replicate]
  rw [foldl_congr_fn _ _ (contentStepFx_eq' fx hfx s h p)]
  rw [overlay_eq_inc_fx p, fileLen_eq_inc s h p]
  exact resize_self _

theorem contentFx_c {s : Fs} (h : NoRN s.pending) (p : Path)
    (hns : NoShrink p ((alookup p s.files).getD []) s.pending) : contentFx fxc s p = content s p := by
  rw [contentFx_eq_inc' fxc rfl s h p, content_eq_inc s h p hns]

theorem readSliceFx_c {s : Fs} (h : NoRN s.pending) (p : Path)
    (hns : NoShrink p ((alookup p s.files).getD []) s.pending) (off n : Nat) :
    readSliceFx fxc s p off n = readSlice s p off n := by
  unfold readSliceFx readSlice; rw [contentFx_c h p hns]

theorem dirEntryPathsFx_c (s : Fs) (p : Path) : dirEntryPathsFx fxc s p = dirEntryPaths s p := rfl
theorem dirEntryNamesFx_c (s : Fs) (p : Path) : dirEntryNamesFx fxc s p = dirEntryNames s p := rfl

theorem viewOfFx_c {s : Fs} (h : NoRN s.pending)
    (hns : ∀ p, NoShrink p ((alookup p s.files).getD []) s.pending) (p : Path) :
    viewOfFx fxc s p = viewOf s p := by
  unfold viewOfFx viewOf
  rw [fileExistsFx_c, dirExistsFx_c, dirEntryNamesFx_c, contentFx_c h p (hns p)]

theorem syncFileFx_c {s : Fs} (h : NoRN s.pending) (p : Path) : syncFileFx fxc s p = syncFile s p := by
  unfold syncFileFx syncFile
  rw [fileExistsFx_c]
  simp only [resolvePath_noRN s h]
  rfl

theorem writeFsFx_c {s : Fs} (h : NoRN s.pending) (p : Path) (off : Nat) (d : Bytes) :
    writeFsFx fxc s p off d false = writeFs s p off d false := by
  unfold writeFsFx writeFs
  simp only [resolvePath_noRN s h]
  rfl

theorem setLenFsFx_c {s : Fs} (h : NoRN s.pending) (p : Path) (n : Nat) :
    setLenFsFx fxc s p n false = setLenFs s p n false := by
  unfold setLenFsFx setLenFs
  simp only [resolvePath_noRN s h]
  rfl

theorem mkdirFx_c (s : Fs) (p : Path) : mkdirFx fxc s p = mkdir s p := rfl

theorem syncDirStepFx_c (path : Path) (t : Fs) (o : POp) (ho : isNs o = true) :
    syncDirStepFx fxc path t o = syncDirStep path t o := by
  cases o <;> simp [isNs] at ho <;> rfl

theorem foldl_syncDirStepFx_c (path : Path) : ∀ (ops : List POp) (t : Fs), NoRN ops →
    ops.foldl (syncDirStepFx fxc path) t = ops.foldl (syncDirStep path) t := by
  intro ops
  induction ops with
  | nil => intro t _; rfl
  | cons o r ih =>
    intro t h
    simp only [List.foldl_cons]
    rw [syncDirStepFx_c path t o h.head]
    exact ih _ h.tail

theorem syncDirFx_c {s : Fs} (h : NoRN s.pending) (p : Path) : syncDirFx fxc s p = syncDir s p := by
  unfold syncDirFx syncDir
  rw [dirExistsFx_c]
  split
  · rfl
  · simp only [foldl_syncDirStepFx_c p _ _ (h.filter _)]

/-- `open`: the repaired open differs only when a create meets a directory that is not a file -/
theorem openFsFx_c {s : Fs} (h : NoRN s.pending) (p : Path) (fl : Flags)
    (hok : ((fl.c || fl.n) && dirExists s p && !(fileExists s p)) = false) :
    openFsFx fxc s p fl = openFs s p fl := by
  unfold openFsFx openFs openCreateFx openCreate
  rw [fileExistsFx_c, dirExistsFx_c, parentExistsFx_c]
  cases hfe : fileExists s p with
  | true =>
    simp only [if_true]
    cases fl.n with
    | true => rfl
    | false =>
      simp only [Bool.false_eq_true, if_false, resolvePath_noRN s h, ite_self]
  | false =>
    simp only [Bool.false_eq_true, if_false]
    cases hcn : (fl.c || fl.n) with
    | false => rfl
    | true =>
      have hd : dirExists s p = false := by simpa [hcn, hfe] using hok
      simp only [if_true, hd, Bool.and_false, Bool.false_eq_true, if_false]
      cases parentExists s p with
      | false => rfl
      | true =>
        simp only [Bool.not_true, Bool.false_eq_true, if_false]
        have hn' : NoRN (s.pending ++ [POp.createFile p]) := h.append (NoRN.single rfl)
        have : resolvePath { s with pending := s.pending ++ [POp.createFile p] } p = p :=
          resolvePath_noRN _ hn' p
        simp only [this, ite_self]

theorem openFs_noRN {s s1 : Fs} (h : NoRN s.pending) (p : Path) (fl : Flags) (ho : openFs s p fl = .ok s1) :
    NoRN s1.pending := by
  unfold openFs at ho
  cases hc : openCreate s p fl with
  | error e => simp [hc] at ho
  | ok s0 =>
    have h0 : NoRN s0.pending := by
      unfold openCreate at hc
      repeat' split at hc
      all_goals first
        | (cases hc; done)
        | (cases hc; exact h)
        | (cases hc; exact h.append (NoRN.single rfl))
    simp only [hc, Except.ok.injEq] at ho
    subst ho
    split
    · exact h0.append (NoRN.single rfl)
    · exact h0

/-- one fragment step: the model of the committed code does exactly what the code-before-repairs
    model does -/
theorem stepFx_c {st : St} {l : Live} (hR : R st l) (op : Op) (hf : fragOk l op = true) :
    stepFx fxc {} st op {} = step {} st op {} := by
  have hn := hR.fs.noRN
  have hm := hR.fs.mono
  cases op with
  | «open» slot p fl =>
    have hf' : (!((fl.c || fl.n) && isDirAt l p) && (!(fl.t && fl.w) || emptyOrAbsent l p)) = true := hf
    have hok : ((fl.c || fl.n) && dirExists st.fs p && !(fileExists st.fs p)) = false := by
      rw [hR.fs.dir]
      simp only [Bool.and_eq_true, Bool.not_eq_true'] at hf'
      rw [hf'.1]; rfl
    simp only [stepFx, step]
    have e : openFsFx fxc (dropSlot st slot).fs p fl = openFs (dropSlot st slot).fs p fl :=
      openFsFx_c (s := st.fs) hn p fl hok
    rw [e]
    cases openFs (dropSlot st slot).fs p fl <;> rfl
  | close slot => rfl
  | writeAt slot off d =>
    simp only [stepFx, step]
    cases hg : getSlot st slot with
    | none => rfl
    | some h => simp only [writeFsFx_c hn]
  | readAt slot off len =>
    simp only [stepFx, step]
    cases hg : getSlot st slot with
    | none => rfl
    | some h => simp only [readSliceFx_c hn _ (hm _)]
  | write slot d =>
    simp only [stepFx, step]
    cases hg : getSlot st slot with
    | none => rfl
    | some h => simp only [writeFsFx_c hn]
  | read slot len =>
    simp only [stepFx, step]
    cases hg : getSlot st slot with
    | none => rfl
    | some h => simp only [readSliceFx_c hn _ (hm _)]
  | seek slot whence off => rfl
  | setLen slot n =>
    simp only [stepFx, step]
    cases hg : getSlot st slot with
    | none => rfl
    | some h => simp only [setLenFsFx_c hn]
  | syncAll slot =>
    simp only [stepFx, step]
    cases hg : getSlot st slot with
    | none => rfl
    | some h => simp only [syncFileFx_c hn]
  | syncData slot =>
    simp only [stepFx, step]
    cases hg : getSlot st slot with
    | none => rfl
    | some h => simp only [syncFileFx_c hn]
  | hmeta slot => rfl
  | mkdir p => rfl
  | syncDir p => simp only [stepFx, step, syncDirFx_c hn]
  | readDir p => rfl
  | stat p => rfl
  | «exists» p => rfl
  | readFile p => simp only [stepFx, step, fileExistsFx_c, contentFx_c hn p (hm p)]
  | writeFile p d =>
    have hf' : (!(isDirAt l p) && emptyOrAbsent l p) = true := hf
    have hok : (((true || false) && dirExists st.fs p) && !(fileExists st.fs p)) = false := by
      rw [hR.fs.dir]
      simp only [Bool.and_eq_true, Bool.not_eq_true'] at hf'
      rw [hf'.1]; rfl
    simp only [stepFx, step]
    rw [openFsFx_c hn p _ hok]
    cases ho : openFs st.fs p { w := true, c := true, t := true } with
    | error e => rfl
    | ok fs1 => simp only [writeFsFx_c (openFs_noRN hn p _ ho)]
  | dump pool =>
    simp only [stepFx, step]
    congr 2
    apply List.map_congr_left
    intro p _
    rw [viewOfFx_c hn hm p]
  | mkdirAll p => simp [fragOk] at hf
  | rmdir p => simp [fragOk] at hf
  | rmdirAll p => simp [fragOk] at hf
  | unlink p => simp [fragOk] at hf
  | rename p q => simp [fragOk] at hf
  | crash => simp [fragOk] at hf

theorem runFx_c : ∀ (h : List Op) (st : St) (l : Live), R st l → fragRun l h = true →
    runFx fxc {} st (quiet h) = run {} st (quiet h) := by
  intro h
  induction h with
  | nil => intro st l _ _; rfl
  | cons op r ih =>
    intro st l hR hf
    simp only [fragRun, Bool.and_eq_true] at hf
    simp only [quiet, List.map_cons, runFx, run]
    rw [stepFx_c hR op hf.1]
    congr 1
    exact ih _ _ (sim_step hR op hf.1).2 hf.2

theorem runStFx_c : ∀ (h : List Op) (st : St) (l : Live), R st l → fragRun l h = true →
    runStFx fxc {} st (quiet h) = runSt {} st (quiet h) := by
  intro h
  induction h with
  | nil => intro st l _ _; rfl
  | cons op r ih =>
    intro st l hR hf
    simp only [fragRun, Bool.and_eq_true] at hf
    simp only [quiet, List.map_cons, runStFx, runSt]
    rw [stepFx_c hR op hf.1]
    exact ih _ _ (sim_step hR op hf.1).2 hf.2

end TV.Fs
