/-
  `sync_file` and `sync_dir` preserve every view on creation/data-only logs
  ("each sync preserves abs").
-/
import TvFs.Proofs.Effects

namespace TV.Fs

/-! ### association-list facts -/

theorem alookup_append (k : Path) (l1 l2 : List (Path × Bytes)) :
    alookup k (l1 ++ l2) = (alookup k l1).orElse fun _ => alookup k l2 := by
  induction l1 with
  | nil => simp [alookup]
  | cons kv r ih =>
    obtain ⟨k', v⟩ := kv
    by_cases h : k' = k
    · simp [alookup, h]
    · simp [alookup, h, ih]

theorem alookup_map_replace (k : Path) (v : Bytes) (k' : Path) : ∀ (l : List (Path × Bytes)),
    alookup k' (l.map fun kv => if kv.1 = k then (k, v) else kv) =
      if k' = k then (if (alookup k l).isSome then some v else none) else alookup k' l := by
  intro l
  induction l with
  | nil => simp [alookup]
  | cons kv r ih =>
    obtain ⟨a, b⟩ := kv
    by_cases ha : a = k
    · subst ha
      by_cases hk : k' = a
      · subst hk; simp [alookup]
      · have : ¬ a = k' := fun h => hk h.symm
        simp [alookup, hk, this, ih]
    · by_cases hk : k' = k
      · subst hk
        have : ¬ a = k' := ha
        simp [alookup, ha, ih]
      · by_cases hak : a = k'
        · subst hak; simp [alookup, ha]
        · simp [alookup, ha, hak, ih, hk]

theorem alookup_ainsert_eq (k : Path) (v : Bytes) (l : List (Path × Bytes)) :
    alookup k (ainsert k v l) = some v := by
  unfold ainsert
  split
  · next h => rw [alookup_map_replace]; simp [h]
  · next h =>
    rw [alookup_append]
    have : alookup k l = none := by
      cases hl : alookup k l with
      | none => rfl
      | some x => simp [hl] at h
    simp [this, alookup]

theorem alookup_ainsert_ne (k k' : Path) (v : Bytes) (l : List (Path × Bytes)) (h : k' ≠ k) :
    alookup k' (ainsert k v l) = alookup k' l := by
  unfold ainsert
  split
  · rw [alookup_map_replace]; simp [h]
  · rw [alookup_append]
    cases alookup k' l with
    | none => simp [alookup, Ne.symm h]
    | some x => rfl

/-! ### `sync_file` -/

theorem applyOp_dataop (t : Fs) (q : Path) (c : Bytes) (o : POp) (ho : isDataOpOf q o = true)
    (hq : alookup q t.files = some c) :
    (applyOp t o).pending = t.pending ∧ (applyOp t o).dirs = t.dirs ∧
    alookup q (applyOp t o).files = some (incStep q c o) ∧
    ∀ p, p ≠ q → alookup p (applyOp t o).files = alookup p t.files := by
  cases o with
  | write a off d =>
    have ha : a = q := by simpa [isDataOpOf] using ho
    subst ha
    simp only [applyOp, hq, incStep, beq_self_eq_true, if_true]
    exact ⟨trivial, trivial, alookup_ainsert_eq _ _ _, fun p hp => alookup_ainsert_ne _ _ _ _ hp⟩
  | setLen a n =>
    have ha : a = q := by simpa [isDataOpOf] using ho
    subst ha
    simp only [applyOp, hq, incStep, beq_self_eq_true, if_true]
    exact ⟨trivial, trivial, alookup_ainsert_eq _ _ _, fun p hp => alookup_ainsert_ne _ _ _ _ hp⟩
  | createFile a => simp [isDataOpOf] at ho
  | createDir a => simp [isDataOpOf] at ho
  | rename a b => simp [isDataOpOf] at ho
  | removeFile a => simp [isDataOpOf] at ho
  | removeDir a => simp [isDataOpOf] at ho

theorem foldl_applyOp_dataops (q : Path) : ∀ (ops : List POp) (t : Fs) (c : Bytes),
    (∀ o ∈ ops, isDataOpOf q o = true) → alookup q t.files = some c →
    (ops.foldl applyOp t).pending = t.pending ∧ (ops.foldl applyOp t).dirs = t.dirs ∧
    alookup q (ops.foldl applyOp t).files = some (ops.foldl (incStep q) c) ∧
    ∀ p, p ≠ q → alookup p (ops.foldl applyOp t).files = alookup p t.files := by
  intro ops
  induction ops with
  | nil => intro t c _ hq; exact ⟨rfl, rfl, hq, fun _ _ => rfl⟩
  | cons o r ih =>
    intro t c h hq
    obtain ⟨h1, h2, h3, h4⟩ := applyOp_dataop t q c o (h o List.mem_cons_self) hq
    obtain ⟨i1, i2, i3, i4⟩ := ih (applyOp t o) _ (fun x hx => h x (List.mem_cons_of_mem _ hx)) h3
    simp only [List.foldl_cons]
    exact ⟨i1.trans h1, i2.trans h2, i3, fun p hp => (i4 p hp).trans (h4 p hp)⟩

theorem any_filter_of_imp {α : Type} (l : List α) (f g : α → Bool) (h : ∀ x, g x = true → f x = true) :
    (l.filter f).any g = l.any g := by
  induction l with
  | nil => rfl
  | cons x r ih =>
    rw [List.filter_cons]
    by_cases hf : f x = true
    · simp [hf, ih]
    · have hg : g x = false := by
        cases hgx : g x with
        | false => rfl
        | true => exact absurd (h x hgx) hf
      simp [hf, hg, ih]

theorem any_partition {α : Type} (l : List α) (f g : α → Bool) :
    l.any g = ((l.filter f).any g || (l.filter fun x => !(f x)).any g) := by
  induction l with
  | nil => rfl
  | cons x r ih =>
    rw [List.filter_cons, List.filter_cons]
    by_cases hf : f x = true
    · simp [hf, ih, Bool.or_assoc]
    · have hf' : f x = false := by simpa using hf
      simp only [hf', List.any_cons, ih, Bool.not_false, if_true]
      cases g x <;> simp

/-- what a sync preserves, without the `NoShrink` bookkeeping of the code before the repairs -/
structure SyncFileOutX (s s' : Fs) (q : Path) : Prop where
  noRN : NoRN s'.pending
  file : ∀ p, fileExists s' p = fileExists s p
  dir : ∀ p, dirExists s' p = dirExists s p
  inc : ∀ p, inc s' p = inc s p

structure SyncFileOut (s s' : Fs) (q : Path) : Prop where
  noRN : NoRN s'.pending
  file : ∀ p, fileExists s' p = fileExists s p
  dir : ∀ p, dirExists s' p = dirExists s p
  inc : ∀ p, inc s' p = inc s p
  mono : ∀ p, NoShrink p ((alookup p s'.files).getD []) s'.pending

theorem isDataOpOf_neutral {q p : Path} {o : POp} (hqp : q ≠ p) (h : isDataOpOf q o = true) : neutralFor p o = true := by
  cases o <;> simp [isDataOpOf] at h <;> simp [neutralFor]
  · subst h; exact hqp
  · subst h; exact hqp

theorem not_isDataOpOf_neutral {q : Path} {o : POp} (h : isDataOpOf q o = false) : neutralFor q o = true := by
  cases o <;> simp [isDataOpOf] at h <;> simp [neutralFor] <;> exact h

theorem syncFile_viewsX {s s' : Fs} {q : Path} (hn : NoRN s.pending)
    (hs : syncFile s q = .ok s') : SyncFileOutX s s' q ∧
      ((∀ p, NoShrink p ((alookup p s.files).getD []) s.pending) →
        ∀ p, NoShrink p ((alookup p s'.files).getD []) s'.pending) := by
  unfold syncFile at hs
  split at hs
  · cases hs
  · next hex =>
    have hex' : fileExists s q = true := by simpa using hex
    simp only [Except.ok.injEq] at hs
    -- the state the flush starts from
    let c0 : Bytes := (alookup q s.files).getD []
    let s1 : Fs := if (alookup q s.files).isSome then s else { s with files := s.files ++ [(q, [])] }
    have hs1q : alookup q s1.files = some c0 := by
      show alookup q (if (alookup q s.files).isSome then s else { s with files := s.files ++ [(q, [])] }).files = _
      cases hl : alookup q s.files with
      | some x => simp [hl, c0]
      | none => simp [hl, c0, alookup_append, alookup]
    have hs1p : ∀ p, p ≠ q → alookup p s1.files = alookup p s.files := by
      intro p hp
      show alookup p (if (alookup q s.files).isSome then s else { s with files := s.files ++ [(q, [])] }).files = _
      split
      · rfl
      · simp only [alookup_append]
        cases alookup p s.files with
        | some x => rfl
        | none => simp [alookup, Ne.symm hp]
    have hs1d : s1.dirs = s.dirs := by
      show (if (alookup q s.files).isSome then s else { s with files := s.files ++ [(q, [])] }).dirs = _
      split <;> rfl
    let keep := s.pending.filter fun op => !(isDataOpOf q op)
    let flush := s.pending.filter (isDataOpOf q)
    have hfl : ∀ o ∈ flush, isDataOpOf q o = true := fun o ho => (List.mem_filter.mp ho).2
    obtain ⟨e1, e2, e3, e4⟩ := foldl_applyOp_dataops q flush { s1 with pending := keep } c0 hfl hs1q
    have hpend : s'.pending = keep := by rw [← hs]; exact e1
    have hdirs : s'.dirs = s.dirs := by rw [← hs]; exact e2.trans hs1d
    have hq' : alookup q s'.files = some (flush.foldl (incStep q) c0) := by rw [← hs]; exact e3
    have hp' : ∀ p, p ≠ q → alookup p s'.files = alookup p s.files := by
      intro p hp; rw [← hs]; exact (e4 p hp).trans (hs1p p hp)
    have hn' : NoRN s'.pending := by rw [hpend]; exact hn.filter _
    have hcf : ∀ p, hasCreateFile keep p = hasCreateFile s.pending p := by
      intro p
      apply any_filter_of_imp
      intro x hx
      have : x = POp.createFile p := by simpa using hx
      subst this; rfl
    have hcd : ∀ p, hasCreateDir keep p = hasCreateDir s.pending p := by
      intro p
      apply any_filter_of_imp
      intro x hx
      have : x = POp.createDir p := by simpa using hx
      subst this; rfl
    refine ⟨⟨hn', ?_, ?_, ?_⟩, fun hm => ?_⟩
    · intro p
      rw [fileExists_noRN s' hn', fileExists_noRN s hn, hpend, hcf]
      by_cases hp : p = q
      · subst hp
        rw [hq']
        rw [fileExists_noRN s hn] at hex'
        simp [hex']
      · rw [hp' p hp]
    · intro p
      rw [dirExists_noRN s' hn', dirExists_noRN s hn, hpend, hcd, hdirs]
    · intro p
      unfold inc
      rw [hpend]
      by_cases hp : p = q
      · subst hp
        rw [hq']
        simp only [Option.getD_some]
        have k1 : keep.foldl (incStep p) (flush.foldl (incStep p) c0) = flush.foldl (incStep p) c0 := by
          have : ∀ (l : List POp) (c : Bytes), (∀ o ∈ l, neutralFor p o = true) → l.foldl (incStep p) c = c := by
            intro l
            induction l with
            | nil => intro c _; rfl
            | cons o r ih =>
              intro c h
              simp only [List.foldl_cons]
              rw [incStep_neutral (h o List.mem_cons_self)]
              exact ih c fun x hx => h x (List.mem_cons_of_mem _ hx)
          apply this
          intro o ho
          have := (List.mem_filter.mp ho).2
          exact not_isDataOpOf_neutral (by simpa using this)
        rw [k1]
        exact foldl_inc_filter p (isDataOpOf p) s.pending c0 (fun o _ hf => not_isDataOpOf_neutral hf)
      · rw [hp' p hp]
        apply foldl_inc_filter
        intro o _ hf
        have : isDataOpOf q o = true := by simpa using hf
        exact isDataOpOf_neutral (Ne.symm hp) this
    · intro p
      rw [hpend]
      by_cases hp : p = q
      · subst hp
        apply noShrink_of_neutral
        intro o ho
        have := (List.mem_filter.mp ho).2
        exact not_isDataOpOf_neutral (by simpa using this)
      · rw [hp' p hp]
        apply noShrink_filter _ _ _ _ _ (hm p)
        intro o _ hf
        have : isDataOpOf q o = true := by simpa using hf
        exact isDataOpOf_neutral (Ne.symm hp) this

theorem syncFile_views {s s' : Fs} {q : Path} (hn : NoRN s.pending)
    (hm : ∀ p, NoShrink p ((alookup p s.files).getD []) s.pending)
    (hs : syncFile s q = .ok s') : SyncFileOut s s' q :=
  have x := syncFile_viewsX hn hs
  ⟨x.1.noRN, x.1.file, x.1.dir, x.1.inc, x.2 hm⟩

/-! ### `sync_dir` -/

def isCreate : POp → Bool
  | .createFile _ => true
  | .createDir _ => true
  | _ => false

theorem sinsert_contains (a p : Path) (l : List Path) :
    (sinsert a l).contains p = (l.contains p || (a == p)) := by
  unfold sinsert
  split
  · next h =>
    by_cases hap : a = p
    · subst hap; rw [h]; simp
    · have : (a == p) = false := by simpa using hap
      simp [this]
  · rw [Bool.eq_iff_iff]
    simp only [List.contains_iff_mem, List.mem_append, List.mem_singleton, Bool.or_eq_true, beq_iff_eq]
    constructor
    · rintro (h | h)
      · exact Or.inl h
      · exact Or.inr h.symm
    · rintro (h | h)
      · exact Or.inl h
      · exact Or.inr h.symm

theorem syncDirStep_create (d : Path) (t : Fs) (o : POp) (ho : isCreate o = true) :
    (syncDirStep d t o).pending = t.pending ∧
    (∀ p, (alookup p (syncDirStep d t o).files).isSome = ((alookup p t.files).isSome || (o == .createFile p))) ∧
    (∀ p, (alookup p (syncDirStep d t o).files).getD [] = (alookup p t.files).getD []) ∧
    (∀ p, (syncDirStep d t o).dirs.contains p = (t.dirs.contains p || (o == .createDir p))) := by
  cases o with
  | createFile a =>
    refine ⟨?_, ?_, ?_, ?_⟩
    · simp only [syncDirStep, applyOp]; split <;> rfl
    · intro p
      simp only [syncDirStep, applyOp]
      by_cases hap : a = p
      · subst hap
        split
        · next h => simp [h]
        · next h =>
          simp only [alookup_append]
          cases hl : alookup a t.files with
          | some x => simp [hl] at h
          | none => simp [alookup]
      · have e : (POp.createFile a == POp.createFile p) = false := by
          rw [beq_eq_false_iff_ne]; intro h; cases h; exact hap rfl
        rw [e, Bool.or_false]
        split
        · rfl
        · simp only [alookup_append]
          cases alookup p t.files with
          | some x => rfl
          | none => simp [alookup, hap]
    · intro p
      simp only [syncDirStep, applyOp]
      split
      · rfl
      · next h =>
        simp only [alookup_append]
        cases hl : alookup p t.files with
        | some x => rfl
        | none =>
          by_cases hap : a = p
          · subst hap; simp [alookup]
          · simp [alookup, hap]
    · intro p
      have e : (POp.createFile a == POp.createDir p) = false := by
        rw [beq_eq_false_iff_ne]; intro h; cases h
      simp only [syncDirStep, applyOp, e, Bool.or_false]
      split <;> rfl
  | createDir a =>
    refine ⟨rfl, ?_, fun p => rfl, ?_⟩
    · intro p
      have e : (POp.createDir a == POp.createFile p) = false := by
        rw [beq_eq_false_iff_ne]; intro h; cases h
      simp only [syncDirStep, applyOp, e, Bool.or_false]
    · intro p
      simp only [syncDirStep, applyOp]
      rw [sinsert_contains]
      congr 1
      by_cases hap : a = p
      · subst hap; simp
      · have e : (POp.createDir a == POp.createDir p) = false := by
          rw [beq_eq_false_iff_ne]; intro h; cases h; exact hap rfl
        have e2 : (a == p) = false := by simpa using hap
        rw [e, e2]
  | write a off dd => simp [isCreate] at ho
  | setLen a n => simp [isCreate] at ho
  | rename a b => simp [isCreate] at ho
  | removeFile a => simp [isCreate] at ho
  | removeDir a => simp [isCreate] at ho

theorem foldl_syncDirStep_creates (d : Path) : ∀ (ops : List POp) (t : Fs),
    (∀ o ∈ ops, isCreate o = true) →
    (ops.foldl (syncDirStep d) t).pending = t.pending ∧
    (∀ p, (alookup p (ops.foldl (syncDirStep d) t).files).isSome = ((alookup p t.files).isSome || hasCreateFile ops p)) ∧
    (∀ p, (alookup p (ops.foldl (syncDirStep d) t).files).getD [] = (alookup p t.files).getD []) ∧
    (∀ p, (ops.foldl (syncDirStep d) t).dirs.contains p = (t.dirs.contains p || hasCreateDir ops p)) := by
  intro ops
  induction ops with
  | nil => intro t _; simp [hasCreateFile, hasCreateDir]
  | cons o r ih =>
    intro t h
    obtain ⟨a1, a2, a3, a4⟩ := syncDirStep_create d t o (h o List.mem_cons_self)
    obtain ⟨b1, b2, b3, b4⟩ := ih (syncDirStep d t o) (fun x hx => h x (List.mem_cons_of_mem _ hx))
    simp only [List.foldl_cons]
    refine ⟨b1.trans a1, ?_, ?_, ?_⟩
    · intro p; rw [b2, a2]; simp [hasCreateFile, Bool.or_assoc]
    · intro p; rw [b3, a3]
    · intro p; rw [b4, a4]; simp [hasCreateDir, Bool.or_assoc]

theorem isDirOpOf_create {d : Path} {o : POp} (hn : isNs o = true) (h : isDirOpOf d o = true) : isCreate o = true := by
  cases o <;> simp [isNs] at hn <;> simp [isDirOpOf] at h <;> rfl

theorem isCreate_neutral (p : Path) {o : POp} (h : isCreate o = true) : neutralFor p o = true := by
  cases o <;> simp [isCreate] at h <;> rfl

theorem syncDir_viewsX {s s' : Fs} {d : Path} (hn : NoRN s.pending)
    (hs : syncDir s d = .ok s') : SyncFileOutX s s' d ∧
      ((∀ p, NoShrink p ((alookup p s.files).getD []) s.pending) →
        ∀ p, NoShrink p ((alookup p s'.files).getD []) s'.pending) := by
  unfold syncDir at hs
  split at hs
  · cases hs
  · simp only [Except.ok.injEq] at hs
    let keep := s.pending.filter fun op => !(isDirOpOf d op)
    let flush := s.pending.filter (isDirOpOf d)
    have hfl : ∀ o ∈ flush, isCreate o = true := by
      intro o ho
      have := List.mem_filter.mp ho
      exact isDirOpOf_create (hn o this.1) this.2
    obtain ⟨e1, e2, e3, e4⟩ := foldl_syncDirStep_creates d flush { s with pending := keep } hfl
    have hpend : s'.pending = keep := by rw [← hs]; exact e1
    have hn' : NoRN s'.pending := by rw [hpend]; exact hn.filter _
    have hsome : ∀ p, (alookup p s'.files).isSome = ((alookup p s.files).isSome || hasCreateFile flush p) := by
      intro p; rw [← hs]; exact e2 p
    have hget : ∀ p, (alookup p s'.files).getD [] = (alookup p s.files).getD [] := by
      intro p; rw [← hs]; exact e3 p
    have hdir : ∀ p, s'.dirs.contains p = (s.dirs.contains p || hasCreateDir flush p) := by
      intro p; rw [← hs]; exact e4 p
    have hneutral : ∀ p, ∀ o ∈ s.pending, (!(isDirOpOf d o)) = false → neutralFor p o = true := by
      intro p o ho hf
      have : isDirOpOf d o = true := by simpa using hf
      exact isCreate_neutral p (isDirOpOf_create (hn o ho) this)
    refine ⟨⟨hn', ?_, ?_, ?_⟩, fun hm => ?_⟩
    · intro p
      rw [fileExists_noRN s' hn', fileExists_noRN s hn, hpend, hsome]
      unfold hasCreateFile
      rw [any_partition s.pending (isDirOpOf d)]
      simp [Bool.or_assoc, flush, keep]
    · intro p
      rw [dirExists_noRN s' hn', dirExists_noRN s hn, hpend, hdir]
      unfold hasCreateDir
      rw [any_partition s.pending (isDirOpOf d)]
      simp [Bool.or_assoc, flush, keep]
    · intro p
      unfold inc
      rw [hpend, hget]
      exact foldl_inc_filter p _ s.pending _ (hneutral p)
    · intro p
      rw [hpend, hget]
      exact noShrink_filter p _ s.pending _ (hneutral p) (hm p)

theorem syncDir_views {s s' : Fs} {d : Path} (hn : NoRN s.pending)
    (hm : ∀ p, NoShrink p ((alookup p s.files).getD []) s.pending)
    (hs : syncDir s d = .ok s') : SyncFileOut s s' d :=
  have x := syncDir_viewsX hn hs
  ⟨x.1.noRN, x.1.file, x.1.dir, x.1.inc, x.2 hm⟩

end TV.Fs
