/-
  General facts about the repaired variants (`Model/Fixed.lean`).
-/
import TvFs.Model.Fixed
import TvFs.Proofs.Views

namespace TV.Fs

/-! ### F-1: with `readOrder` the overlay reading equals the incremental reading without any
    no-shrink hypothesis -/

theorem length_zeroFrom (b : Bytes) (n : Nat) : (zeroFrom b n).length = b.length := by simp [zeroFrom]

theorem zeroFrom_resize (c : Bytes) (L n : Nat) : zeroFrom (resize c L) n = resize (resize c n) L := by
  unfold zeroFrom
  rw [length_resize]
  show _ = (List.range L).map fun i => (resize c n).getD i 0
  apply range_map_congr
  intro i hi
  rw [getD_resize, getD_resize]
  simp [hi]

def ovStepFx (p : Path) (buf : Bytes) : POp → Bytes
  | .write q off d => if q == p then overlayClip buf off d else buf
  | .setLen q n => if q == p then zeroFrom buf n else buf
  | _ => buf

theorem overlay_eq_inc_fx (p : Path) : ∀ (ops : List POp) (c : Bytes) (L : Nat),
    ops.foldl (ovStepFx p) (resize c L) = resize (ops.foldl (incStep p) c) L := by
  intro ops
  induction ops with
  | nil => intro c L; rfl
  | cons o r ih =>
    intro c L
    simp only [List.foldl_cons]
    cases o with
    | write q off d =>
      simp only [ovStepFx, incStep]
      by_cases hq : (q == p) = true
      · simp only [hq, if_true]; rw [overlay_resize_write]; exact ih _ L
      · simp only [hq]; exact ih _ L
    | setLen q n =>
      simp only [ovStepFx, incStep]
      by_cases hq : (q == p) = true
      · simp only [hq, if_true]; rw [zeroFrom_resize]; exact ih _ L
      · simp only [hq]; exact ih _ L
    | createFile q => exact ih _ L
    | createDir q => exact ih _ L
    | rename a b => exact ih _ L
    | removeFile q => exact ih _ L
    | removeDir q => exact ih _ L

theorem contentStepFx_eq (s : Fs) (h : NoRN s.pending) (p : Path) (buf : Bytes) (o : POp) :
    contentStepFx { readOrder := true } s p buf o = ovStepFx p buf o := by
  cases o <;> simp only [contentStepFx, ovStepFx, appliesTo_noRN s h, Bool.true_and]

/-- on a rename/remove-free log the repaired `read_file` shows exactly the incremental content —
    shrinking `set_len`s included -/
theorem contentFx_eq_inc (s : Fs) (h : NoRN s.pending) (p : Path) :
    contentFx { readOrder := true } s p = inc s p := by
  unfold contentFx
  simp only [resolvePath_noRN s h]
  rw [overlayClip_replicate]
  rw [foldl_congr_fn _ _ (contentStepFx_eq s h p)]
  rw [overlay_eq_inc_fx p, fileLen_eq_inc s h p]
  exact resize_self _

/-! ### F-9 -/

theorem openFsFx_dir_fails (fx : Fixes) (s : Fs) (p : Path) (fl : Flags) (hfx : fx.createOverDir = true)
    (hd : dirExistsFx fx s p = true) (hf : fileExistsFx fx s p = false) (hc : (fl.c || fl.n) = true) :
    openFsFx fx s p fl = .error (if fl.n then .alreadyexists else .isdir) := by
  unfold openFsFx openCreateFx
  simp only [hf, hc, hfx, hd, Bool.false_eq_true, if_false, if_true, Bool.and_self]
  cases fl.n <;> rfl

/-! ### F-7 -/

theorem dirHasChildrenFx_renamedIn (fx : Fixes) (s : Fs) (d a t : Path) (hfx : fx.childRenamedIn = true)
    (hm : POp.rename a t ∈ s.pending) (hc : isChildOf t d = true)
    (he : (fileExistsFx fx s t || dirExistsFx fx s t) = true) : dirHasChildrenFx fx s d = true := by
  unfold dirHasChildrenFx
  simp only [Bool.or_eq_true]
  right
  rw [List.any_eq_true]
  exact ⟨_, hm, by simp [hfx, hc, he]⟩

theorem rmdirFx_renamedIn (fx : Fixes) (s : Fs) (d a t : Path) (hfx : fx.childRenamedIn = true)
    (hde : dirExistsFx fx s d = true)
    (hm : POp.rename a t ∈ s.pending) (hc : isChildOf t d = true)
    (he : (fileExistsFx fx s t || dirExistsFx fx s t) = true) : rmdirFx fx s d = .error .notempty := by
  unfold rmdirFx
  simp [hde, dirHasChildrenFx_renamedIn fx s d a t hfx hm hc he]

/-! ### F-11 -/

theorem syncedUpdFx_rename (fx : Fixes) (path : Path) (syn : List Path) (src dst : Path)
    (hfx : fx.syncRenameBoth = true) :
    (syncedUpdFx fx path syn (.rename src dst)).contains dst = true ∧
    (src ≠ dst → (syncedUpdFx fx path syn (.rename src dst)).contains src = false) := by
  simp only [syncedUpdFx, hfx, if_true]
  constructor
  · unfold sinsert
    split
    · next h => exact h
    · simp
  · intro hne
    unfold sinsert serase
    split
    · simp
    · simp [hne]

end TV.Fs
