#!/bin/sh
# Build the framework from files on disk only (offline): Lean projects + harness crates.
# Failures here are not fatal: every check rebuilds what it needs and reports its own breakage.
cd "$(dirname "$0")"
export CARGO_NET_OFFLINE=true
for p in lean/*/; do
  [ -f "$p/lakefile.toml" ] || continue
  (cd "$p" && lake build >/dev/null 2>&1) || echo "setup: lake build failed in $p (the property's own check will report it)"
  for exe in $(grep -A1 '^\[\[lean_exe\]\]' "$p/lakefile.toml" | grep '^name' | sed 's/.*"\(.*\)"/\1/'); do
    (cd "$p" && lake build "$exe" >/dev/null 2>&1) || echo "setup: lake build $exe failed in $p"
  done
done
for c in harness/*/; do
  [ -f "$c/Cargo.toml" ] || continue
  name=$(basename "$c")
  [ -f "$c/Cargo.lock" ] || cp /repo/Cargo.lock "$c/Cargo.lock"
  (cd "$c" && CARGO_TARGET_DIR=/verif/.cache/target/$name cargo build --offline >/dev/null 2>&1) || echo "setup: cargo build failed in $c"
done
echo setup done
